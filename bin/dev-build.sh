#!/bin/sh
# developer convenience: rewrite $VERIF_REPO (default /repo) into sim/reftable and build bin/sim in place.
set -e
cd "$(dirname "$0")/.."
export GOFLAGS=-mod=mod GOPROXY=off GOSUMDB=off GOTOOLCHAIN=local
rm -rf sim/reftable
bin/rewrite -src "${VERIF_REPO:-/repo}" -out sim/reftable -access sim/access/sim_access.go.txt
(cd sim && go build -o ../bin/sim ./cmd/sim)
