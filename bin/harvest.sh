#!/bin/sh
# bin/harvest.sh <worktree-id> <property>: copy a sub-agent's seeded change into /verif/seeded/<id>/ and
# confirm it independently in a fresh scratch worktree: suite passes with the patch, demo fails with it, demo passes without it.
set -u
ID="$1"; PROP="$2"
WT=/tmp/wt-$ID
DST=/verif/seeded/$ID
export GOFLAGS=-mod=mod GOPROXY=off GOSUMDB=off GOTOOLCHAIN=local
mkdir -p "$DST"
git -C "$WT" diff > "$DST/patch.diff"
[ -s "$DST/patch.diff" ] || { echo "harvest: empty diff in $WT"; exit 1; }
for f in $(git -C "$WT" ls-files --others --exclude-standard); do
  case "$f" in *.md|*_test.go|*.go) mkdir -p "$DST/$(dirname $f)"; cp "$WT/$f" "$DST/$f";; esac
done
CHK=$(mktemp -d /tmp/harvest.XXXXXX)
git -C /repo worktree add -q --detach "$CHK/wt" HEAD || exit 1
cd "$CHK/wt"
R1=fail; R2=pass; R3=fail
git apply "$DST/patch.diff" || { echo "harvest: patch does not apply to /repo HEAD"; }
go build ./... && go test -vet=off -count=1 ./... > "$CHK/suite.log" 2>&1 && R1=pass
for f in "$DST"/*_test.go; do [ -f "$f" ] && cp "$f" .; done
go test -vet=off -count=1 -run 'Seeded' . > "$CHK/demo_with.log" 2>&1 && R2=pass || R2=fail
git checkout -q -- . 
go test -vet=off -count=1 -run 'Seeded' . > "$CHK/demo_without.log" 2>&1 && R3=pass || R3=fail
echo "harvest $ID: suite_with_patch=$R1 demo_with_patch=$R2 demo_without_patch=$R3"
tail -5 "$CHK/demo_with.log" | sed 's/^/    with: /'
cat > "$DST/confirm.txt" <<EOT
suite_with_patch=$R1
demo_with_patch=$R2
demo_without_patch=$R3
EOT
cd /; git -C /repo worktree remove --force "$CHK/wt"; rm -rf "$CHK"
