package harness

import (
	"bytes"
	"encoding/binary"
	"fmt"
	"hash/crc32"
	"math"
	"sort"

	"verifsim/reftable"
)

// ContainerInfo is what the independent container-level validator
// extracts. It is written from the format description and shares no code
// with reader.go.
type ContainerInfo struct {
	Version   int
	BlockSize uint32
	Min, Max  uint64
	Hash      string
	Size      int
	// footer section offsets
	RefIndexOff, ObjOff, ObjIndexOff, LogOff, LogIndexOff uint64
	ObjIDLen                                              int
}

// ValidateContainer decides "complete, valid table" at container level:
// magic, version, header repeated in the footer, footer CRC-32, section
// offsets inside the file, first block type.
func ValidateContainer(b []byte) (*ContainerInfo, error) {
	if len(b) < 24+68 {
		return nil, fmt.Errorf("short file (%d bytes)", len(b))
	}
	if string(b[:4]) != "REFT" {
		return nil, fmt.Errorf("bad magic %q", b[:4])
	}
	ci := &ContainerInfo{Version: int(b[4]), Size: len(b)}
	var hsz, fsz int
	switch ci.Version {
	case 1:
		hsz, fsz = 24, 68
		ci.Hash = "sha1"
	case 2:
		hsz, fsz = 28, 72
	default:
		return nil, fmt.Errorf("bad version %d", ci.Version)
	}
	if len(b) < hsz+fsz {
		return nil, fmt.Errorf("short file (%d bytes)", len(b))
	}
	ci.BlockSize = uint32(b[5])<<16 | uint32(b[6])<<8 | uint32(b[7])
	ci.Min = binary.BigEndian.Uint64(b[8:])
	ci.Max = binary.BigEndian.Uint64(b[16:])
	if ci.Version == 2 {
		ci.Hash = string(b[24:28])
		if ci.Hash != "sha1" && ci.Hash != "s256" {
			return nil, fmt.Errorf("bad hash id %q", ci.Hash)
		}
	}
	if ci.Min > ci.Max {
		return nil, fmt.Errorf("min update index %d > max %d", ci.Min, ci.Max)
	}
	foot := b[len(b)-fsz:]
	if !bytes.Equal(foot[:hsz], b[:hsz]) {
		return nil, fmt.Errorf("footer header copy differs from header")
	}
	want := crc32.ChecksumIEEE(foot[:fsz-4])
	if got := binary.BigEndian.Uint32(foot[fsz-4:]); got != want {
		return nil, fmt.Errorf("footer crc %08x want %08x", got, want)
	}
	body := uint64(len(b) - fsz)
	offs := foot[hsz : fsz-4]
	for i := 0; i < 5; i++ {
		o := binary.BigEndian.Uint64(offs[8*i:])
		if i == 1 {
			ci.ObjIDLen = int(o & 31)
			o >>= 5
		}
		switch i {
		case 0:
			ci.RefIndexOff = o
		case 1:
			ci.ObjOff = o
		case 2:
			ci.ObjIndexOff = o
		case 3:
			ci.LogOff = o
		case 4:
			ci.LogIndexOff = o
		}
		if o != 0 && o >= body {
			return nil, fmt.Errorf("section offset %d (#%d) outside body of %d bytes", o, i, body)
		}
	}
	if int(body) > hsz {
		switch b[hsz] {
		case 'r', 'g':
		default:
			return nil, fmt.Errorf("first block has type %q", b[hsz])
		}
	}
	return ci, nil
}

// TableContent is the harness' own reading of one table: all records,
// deletions included, through the library's reader (full scans only).
type TableContent struct {
	Name  string
	Info  *ContainerInfo
	Refs  []Ref
	Logs  []Log
	Err   error // not a complete, valid table
	Bytes int
}

func refFromRec(r *reftable.RefRecord) Ref {
	out := Ref{Name: r.RefName, Idx: r.UpdateIndex, Value: r.Value, Peeled: r.TargetValue, Target: r.Target}
	switch {
	case r.Value != nil && r.TargetValue != nil:
		out.Kind = RefPeeled
	case r.Value != nil:
		out.Kind = RefVal
	case r.Target != "":
		out.Kind = RefSym
	default:
		out.Kind = RefDel
	}
	if r.Value == nil && r.TargetValue != nil {
		out.Kind = 9 // impossible shape; shows up in comparisons
	}
	return out
}

func logFromRec(l *reftable.LogRecord) Log {
	if l.IsDeletion() {
		return Log{Name: l.RefName, Idx: l.UpdateIndex, Del: true}
	}
	return Log{Name: l.RefName, Idx: l.UpdateIndex, Old: l.Old, New: l.New, Who: l.Name, Email: l.Email, Time: l.Time, TZ: l.TZOffset, Msg: l.Message}
}

// ScanTable drains full ref and log scans of any Table.
func ScanTable(t reftable.Table) (refs []Ref, logs []Log, err error) {
	defer func() {
		if r := recover(); r != nil {
			err = fmt.Errorf("panic: %v", r)
		}
	}()
	it, err := t.SeekRef("")
	if err != nil {
		return nil, nil, fmt.Errorf("SeekRef: %v", err)
	}
	for n := 0; ; n++ {
		var rec reftable.RefRecord
		ok, err := it.NextRef(&rec)
		if err != nil {
			return nil, nil, fmt.Errorf("NextRef: %v", err)
		}
		if !ok {
			break
		}
		refs = append(refs, refFromRec(&rec))
		if n > 1<<20 {
			return nil, nil, fmt.Errorf("ref scan does not terminate")
		}
	}
	it, err = t.SeekLog("", math.MaxUint64)
	if err != nil {
		return nil, nil, fmt.Errorf("SeekLog: %v", err)
	}
	for n := 0; ; n++ {
		var rec reftable.LogRecord
		ok, err := it.NextLog(&rec)
		if err != nil {
			return nil, nil, fmt.Errorf("NextLog: %v", err)
		}
		if !ok {
			break
		}
		logs = append(logs, logFromRec(&rec))
		if n > 1<<20 {
			return nil, nil, fmt.Errorf("log scan does not terminate")
		}
	}
	return refs, logs, nil
}

// ReadTableBytes reads a table from bytes: container validation plus full
// scans through the library's reader.
func ReadTableBytes(name string, b []byte) *TableContent {
	tc := &TableContent{Name: name, Bytes: len(b)}
	ci, err := ValidateContainer(b)
	if err != nil {
		tc.Err = fmt.Errorf("container: %v", err)
		return tc
	}
	tc.Info = ci
	func() {
		defer func() {
			if r := recover(); r != nil {
				tc.Err = fmt.Errorf("reader panic: %v", r)
			}
		}()
		rd, err := reftable.NewReader(&reftable.ByteBlockSource{Source: b}, name)
		if err != nil {
			tc.Err = fmt.Errorf("NewReader: %v", err)
			return
		}
		if rd.MinUpdateIndex() != ci.Min || rd.MaxUpdateIndex() != ci.Max {
			tc.Err = fmt.Errorf("reader limits [%d,%d] differ from header [%d,%d]", rd.MinUpdateIndex(), rd.MaxUpdateIndex(), ci.Min, ci.Max)
			return
		}
		tc.Refs, tc.Logs, tc.Err = ScanTable(rd)
	}()
	return tc
}

// Overlay computes the newest-wins overlay of tables (oldest first) itself.
// raw=true keeps deletion records (as the raw merged view does).
func Overlay(tabs []*TableContent, raw bool) (refs []Ref, logs []Log) {
	rm := map[string]Ref{}
	lm := map[logKey]Log{}
	for _, t := range tabs {
		for _, r := range t.Refs {
			rm[r.Name] = r
		}
		for _, l := range t.Logs {
			lm[logKey{l.Name, l.Idx}] = l
		}
	}
	for _, r := range rm {
		if !raw && r.Kind == RefDel {
			continue
		}
		refs = append(refs, r)
	}
	for _, l := range lm {
		if !raw && l.Del {
			continue
		}
		logs = append(logs, l)
	}
	sort.Slice(refs, func(i, j int) bool { return refs[i].Name < refs[j].Name })
	sort.Slice(logs, func(i, j int) bool { return logLess(logs[i], logs[j]) })
	return
}

// StateOf builds a State from live records.
func StateOf(refs []Ref, logs []Log) *State {
	s := NewState()
	for _, r := range refs {
		if r.Kind != RefDel {
			s.Refs[r.Name] = r
		}
	}
	for _, l := range logs {
		if !l.Del {
			s.Logs[logKey{l.Name, l.Idx}] = l
		}
	}
	return s
}
