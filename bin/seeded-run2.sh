#!/bin/sh
# like seeded-run.sh but without touching /repo: the patch is applied in a scratch worktree and the checks use VERIF_REPO.
ID="$1"; shift
V=/verif
W=$(mktemp -d /var/tmp/seedrun.XXXXXX)
git -C /repo worktree add -q --detach "$W/wt" HEAD || exit 2
trap 'git -C /repo worktree remove --force "$W/wt"; rm -rf "$W"' EXIT INT TERM
git -C "$W/wt" apply "$V/seeded/$ID/patch.diff" || { echo "seeded-run2: patch does not apply"; exit 2; }
for c in "$@"; do
  out=$(VERIF_OUT="$W/vout" VERIF_REPO="$W/wt" $V/bin/check $c --tier "${TIER:-quick}" ${SCALE:+--scale $SCALE} 2>&1); ec=$?
  echo "== $ID vs $c: exit=$ec"
  echo "$out" | grep -E "^(C[0-9]+/|VIOLATION|KNOWN|NONDET|check )" | head -6 | cut -c1-200
done
