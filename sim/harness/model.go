package harness

import (
	"encoding/binary"
	"encoding/hex"
	"fmt"
	"sort"
	"strings"

	"verifsim/simrt"
)

// Ref is a ref record as the harness sees it (written or read).
type Ref struct {
	Name   string
	Idx    uint64
	Kind   int
	Value  []byte
	Peeled []byte
	Target string
}

// Log is a reflog record as the harness sees it.
type Log struct {
	Name  string
	Idx   uint64
	Del   bool
	Old   []byte
	New   []byte
	Who   string
	Email string
	Time  uint64
	TZ    int16
	Msg   string
}

func (r Ref) String() string {
	return fmt.Sprintf("ref|%s|%d|%d|%s|%s|%s", r.Name, r.Idx, r.Kind, hex.EncodeToString(r.Value), hex.EncodeToString(r.Peeled), r.Target)
}

func (l Log) String() string {
	if l.Del {
		return fmt.Sprintf("log|%s|%d|DEL", l.Name, l.Idx)
	}
	return fmt.Sprintf("log|%s|%d|%s|%s|%s|%s|%d|%d|%q", l.Name, l.Idx, hex.EncodeToString(l.Old), hex.EncodeToString(l.New), l.Who, l.Email, l.Time, l.TZ, l.Msg)
}

type logKey struct {
	Name string
	Idx  uint64
}

// State is the sequential reference model: live refs and live log entries.
type State struct {
	Refs map[string]Ref
	Logs map[logKey]Log
}

func NewState() *State { return &State{Refs: map[string]Ref{}, Logs: map[logKey]Log{}} }

func (s *State) Clone() *State {
	n := NewState()
	for k, v := range s.Refs {
		n.Refs[k] = v
	}
	for k, v := range s.Logs {
		n.Logs[k] = v
	}
	return n
}

// Apply applies one table's worth of records: ref deletion removes,
// otherwise puts; log deletion removes that entry, otherwise puts.
func (s *State) Apply(refs []Ref, logs []Log) {
	for _, r := range refs {
		if r.Kind == RefDel {
			delete(s.Refs, r.Name)
		} else {
			s.Refs[r.Name] = r
		}
	}
	for _, l := range logs {
		if l.Del {
			delete(s.Logs, logKey{l.Name, l.Idx})
		} else {
			s.Logs[logKey{l.Name, l.Idx}] = l
		}
	}
}

// Expire is the C13 filter.
func (s *State) Expire(e *ExpSpec) {
	if e == nil {
		return
	}
	for k, l := range s.Logs {
		if (e.Time > 0 && l.Time < e.Time) || (e.Max != 0 && l.Idx > e.Max) || (e.Min != 0 && l.Idx < e.Min) {
			delete(s.Logs, k)
		}
	}
}

// RefList returns live refs in key order.
func (s *State) RefList() []Ref {
	res := make([]Ref, 0, len(s.Refs))
	for _, r := range s.Refs {
		res = append(res, r)
	}
	sort.Slice(res, func(i, j int) bool { return res[i].Name < res[j].Name })
	return res
}

func logLess(a, b Log) bool {
	if a.Name != b.Name {
		return a.Name < b.Name
	}
	return a.Idx > b.Idx
}

// LogList returns live log entries in key order (name ascending, update
// index descending).
func (s *State) LogList() []Log {
	res := make([]Log, 0, len(s.Logs))
	for _, l := range s.Logs {
		res = append(res, l)
	}
	sort.Slice(res, func(i, j int) bool { return logLess(res[i], res[j]) })
	return res
}

// LogsOf returns the entries of one ref, newest first.
func (s *State) LogsOf(name string) []Log {
	var res []Log
	for k, l := range s.Logs {
		if k.Name == name {
			res = append(res, l)
		}
	}
	sort.Slice(res, func(i, j int) bool { return res[i].Idx > res[j].Idx })
	return res
}

func refStrings(rs []Ref) []string {
	out := make([]string, len(rs))
	for i, r := range rs {
		out[i] = r.String()
	}
	return out
}

func logStrings(ls []Log) []string {
	out := make([]string, len(ls))
	for i, l := range ls {
		out[i] = l.String()
	}
	return out
}

// Digest is a canonical rendering of the whole state.
func (s *State) Digest() string {
	return strings.Join(refStrings(s.RefList()), "\n") + "\n--\n" + strings.Join(logStrings(s.LogList()), "\n")
}

func (s *State) Equal(o *State) bool { return s.Digest() == o.Digest() }

// diffLists describes the first difference between two canonical lists.
func diffLists(want, got []string) string {
	for i := 0; i < len(want) || i < len(got); i++ {
		var w, g string
		if i < len(want) {
			w = want[i]
		} else {
			w = "<end>"
		}
		if i < len(got) {
			g = got[i]
		} else {
			g = "<end>"
		}
		if w != g {
			return fmt.Sprintf("at #%d want %s got %s", i, w, g)
		}
	}
	return ""
}

func (s *State) Diff(o *State) string {
	if d := diffLists(refStrings(s.RefList()), refStrings(o.RefList())); d != "" {
		return "refs " + d
	}
	if d := diffLists(logStrings(s.LogList()), logStrings(o.LogList())); d != "" {
		return "logs " + d
	}
	return ""
}

// ---------------------------------------------------------------- values

func hashBytes(seed uint64, n int) []byte {
	out := make([]byte, 0, n+8)
	x := seed
	for len(out) < n {
		x = simrt.Mix64(x)
		var b [8]byte
		binary.BigEndian.PutUint64(b[:], x)
		out = append(out, b[:]...)
	}
	return out[:n]
}

// UniqValue is the value written by transaction txn for name: unique per
// (txn, name, salt).
func UniqValue(txn int, name string, salt string, n int) []byte {
	return hashBytes(simrt.HashStr(simrt.HashStr(uint64(txn)*0x9e37+17, name), salt), n)
}

// SharedOid is the tag-th shared object id. Shared ids share long
// prefixes pairwise (tag and tag^1 agree on the first 6, 16, n-1, 12 or n-2
// bytes, by pair) so that the object index needs abbreviations of every
// length up to the full id.
func SharedOid(tag int, n int) []byte {
	b := hashBytes(simrt.HashStr(0xabcdef, fmt.Sprint(tag)), n)
	p := hashBytes(simrt.HashStr(0xabcdef, fmt.Sprint(tag|1)), n)
	l := []int{6, 16, n - 1, 12, n - 2}[(tag/2)%5]
	copy(b[:l], p[:l])
	if tag&1 == 0 && b[n-1] == p[n-1] {
		b[n-1] ^= 1 // keep the pair distinct
	}
	return b
}

var whoNames = []string{"A U Thor", "C O Mitter", "", "x"}
var whoMails = []string{"author@example.com", "c@m", "", "y@z"}

// Materialise turns a TxnSpec into the records written at base update
// index `base`, given the committed state (for log records that address
// existing entries). Records come back sorted and de-duplicated by key,
// as the writer requires.
func Materialise(tx *TxnSpec, base uint64, cfg CfgSpec, committed *State) ([]Ref, []Log) {
	hs := cfg.HashSize()
	span := tx.Span
	if span < 1 {
		span = 1
	}
	seenR := map[string]bool{}
	var refs []Ref
	for _, r := range tx.Refs {
		if seenR[r.Name] {
			continue
		}
		seenR[r.Name] = true
		off := r.Off % span
		if off < 0 {
			off = 0
		}
		rec := Ref{Name: r.Name, Idx: base + uint64(off), Kind: r.Kind}
		switch r.Kind {
		case RefVal, RefPeeled:
			if r.OidTag > 0 {
				rec.Value = SharedOid(r.OidTag, hs)
			} else {
				rec.Value = UniqValue(tx.ID, r.Name, "v", hs)
			}
			if r.Kind == RefPeeled {
				if r.PeelTag > 0 {
					rec.Peeled = SharedOid(r.PeelTag, hs)
				} else {
					rec.Peeled = UniqValue(tx.ID, r.Name, "p", hs)
				}
			}
		case RefSym:
			rec.Target = r.Target
			if rec.Target == "" {
				rec.Target = "refs/heads/target"
			}
			if r.TargetLen > len(rec.Target) {
				rec.Target += "/" + strings.Repeat("t", r.TargetLen-len(rec.Target)-1)
			}
		}
		refs = append(refs, rec)
	}
	sort.Slice(refs, func(i, j int) bool { return refs[i].Name < refs[j].Name })

	seenL := map[logKey]bool{}
	var logs []Log
	for _, l := range tx.Logs {
		var idx uint64
		if l.Which < 0 {
			off := l.Off % span
			if off < 0 {
				off = 0
			}
			idx = base + uint64(off)
			if l.Fwd > 0 {
				idx = base + uint64(span-1) + uint64(l.Fwd)
			}
		} else {
			if committed == nil {
				continue
			}
			ex := committed.LogsOf(l.Name)
			if len(ex) == 0 {
				continue
			}
			idx = ex[l.Which%len(ex)].Idx
		}
		k := logKey{l.Name, idx}
		if seenL[k] {
			continue
		}
		seenL[k] = true
		rec := Log{Name: l.Name, Idx: idx}
		if l.Del {
			rec.Del = true
		} else {
			if !l.NilOld {
				rec.Old = UniqValue(tx.ID, l.Name, fmt.Sprint("o", idx), hs)
			}
			if !l.NilNew {
				rec.New = UniqValue(tx.ID, l.Name, fmt.Sprint("n", idx), hs)
			}
			rec.Who = whoNames[l.Who%len(whoNames)]
			rec.Email = whoMails[l.Who%len(whoMails)]
			rec.Time = l.Time
			rec.TZ = l.TZ
			rec.Msg = l.Msg
		}
		logs = append(logs, rec)
	}
	sort.Slice(logs, func(i, j int) bool { return logLess(logs[i], logs[j]) })
	return refs, logs
}

// Normalise is the documented read-back normalisation of what was given
// to the writer: absent log hashes read as all-zero and, unless exact
// messages are requested, messages end in exactly one newline.
func NormaliseLog(l Log, cfg CfgSpec) Log {
	if l.Del {
		return Log{Name: l.Name, Idx: l.Idx, Del: true}
	}
	hs := cfg.HashSize()
	if l.Old == nil {
		l.Old = make([]byte, hs)
	}
	if l.New == nil {
		l.New = make([]byte, hs)
	}
	if !cfg.ExactLog && !strings.HasSuffix(l.Msg, "\n") {
		l.Msg += "\n"
	}
	return l
}

func NormaliseLogs(ls []Log, cfg CfgSpec) []Log {
	out := make([]Log, len(ls))
	for i, l := range ls {
		out[i] = NormaliseLog(l, cfg)
	}
	return out
}

// ---------------------------------------------------------------- name rules (C12)

func validName(name string) bool {
	if name == "" {
		return false
	}
	for _, c := range strings.Split(name, "/") {
		if c == "" || c == "." || c == ".." {
			return false
		}
	}
	return true
}

// conflictFree reports whether a set of names has no malformed name and no
// pair x, x/...
func conflictFree(names map[string]bool) (bool, string) {
	for n := range names {
		if !validName(n) {
			return false, "malformed " + n
		}
		for p := n; ; {
			i := strings.LastIndex(p, "/")
			if i < 0 {
				break
			}
			p = p[:i]
			if names[p] {
				return false, p + " vs " + n
			}
		}
	}
	return true, ""
}

// LegalTxn decides, from the statement of C12 alone, whether committing
// the given tables (in order) on top of state s is legal: reject exactly
// when an added name is malformed or the resulting live set holds x and
// x/... .
func LegalTxn(s *State, tables [][]Ref) (bool, string) {
	live := map[string]bool{}
	for n := range s.Refs {
		live[n] = true
	}
	for _, refs := range tables {
		for _, r := range refs {
			if r.Kind == RefDel {
				delete(live, r.Name)
			}
		}
		for _, r := range refs {
			if r.Kind != RefDel {
				if !validName(r.Name) {
					return false, "malformed " + r.Name
				}
				live[r.Name] = true
			}
		}
		// the statement speaks about the state the transaction creates;
		// a multi-table Addition commits as one transaction, so the
		// state is judged once all its tables are applied.
	}
	if ok, why := conflictFree(live); !ok {
		// only conflicts that involve an added name can be created by
		// this transaction; pre-existing ones (never in a healthy run)
		// are not its fault.
		return false, why
	}
	return true, ""
}
