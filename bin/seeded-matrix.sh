#!/bin/sh
# bin/seeded-matrix.sh [seed-id ...]: every seeded change against every registered quick check, without touching /repo:
# the patch is applied in a scratch worktree and the checks are pointed at it through VERIF_REPO.
# Output: one line "<seed> <check> exit=<code> <first signature>" per pair (to stdout).
cd "$(dirname "$0")/.."
V="$(pwd)"
IDS="$*"; [ -z "$IDS" ] && IDS=$(ls seeded)
CHECKS=$(python3 -c "import json;print(' '.join(c['property_id'] for c in json.load(open('MANIFEST.json'))['checks']))")
for id in $IDS; do
  W=$(mktemp -d /var/tmp/matrix.XXXXXX)
  git -C /repo worktree add -q --detach "$W/wt" HEAD || continue
  if git -C "$W/wt" apply "$V/seeded/$id/patch.diff" 2>/dev/null; then
    for c in $CHECKS; do
      out=$(VERIF_OUT="$W/vout" VERIF_REPO="$W/wt" bin/check $c --tier quick ${SCALE:+--scale $SCALE} 2>&1); ec=$?
      sig=$(echo "$out" | grep -E "^C[0-9]+/" | head -1 | cut -c1-120)
      echo "$id $c exit=$ec $sig"
    done
  else
    echo "$id - patch does not apply"
  fi
  git -C /repo worktree remove --force "$W/wt"; rm -rf "$W"
done
