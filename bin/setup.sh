#!/bin/sh
# Builds the framework from files on disk only (offline) and warms the Go build cache
# (normal and -race) so that the checks' own rebuilds are incremental.
set -e
cd "$(dirname "$0")/.."
V="$(pwd)"
export GOFLAGS=-mod=mod GOPROXY=off GOSUMDB=off GOTOOLCHAIN=local
(cd tools/rewrite && go build -o ../../bin/rewrite .)
echo "setup: rewriter built"
SCR="$(mktemp -d "${TMPDIR:-/var/tmp}/verifsetup.XXXXXX")"
trap 'rm -rf "$SCR"' EXIT
mkdir -p "$SCR/sim" "$SCR/race"
(cd sim && tar cf - --exclude=./reftable .) | (cd "$SCR/sim" && tar xf -)
bin/rewrite -src "${VERIF_REPO:-/repo}" -out "$SCR/sim/reftable" -access sim/access/sim_access.go.txt
(cd "$SCR/sim" && go build -o "$SCR/simbin" ./cmd/sim)
echo "setup: simulation binary builds"
(cd sim && tar cf - --exclude=./reftable .) | (cd "$SCR/race" && tar xf -)
bin/rewrite -plain -src "${VERIF_REPO:-/repo}" -out "$SCR/race/reftable" -access sim/access/sim_access.go.txt
(cd "$SCR/race" && go build -race -o "$SCR/racebin" ./cmd/racer)
echo "setup: race-detector binary builds"
mkdir -p evidence out/replays
echo "setup: done"
"$V/bin/check" selftest --n 24 --fs 1500
