package simrt

import (
	"io"
	"os"
	"path/filepath"
	"sort"
	"strings"
	"syscall"
)

// Backend is the POSIX subset the library (and its tests) use. Two
// implementations: MemFS (the simulated disk) and RealFS (pass-through to a
// real directory, used for the shim-conformance self-test and for replaying
// findings against the real kernel).
type Backend interface {
	OpenFile(name string, flag int, perm os.FileMode) (Handle, error)
	Rename(oldp, newp string) error
	Remove(name string) error
	ReadFile(name string) ([]byte, error)
	ReadDir(name string) ([]DirEnt, error)
	MkdirAll(name string) error
	RemoveAll(name string) error
	Stat(name string) (FInfo, error)
	Link(oldp, newp string) error
}

// Handle is an open file description.
type Handle interface {
	Write(b []byte) (int, error)
	Read(b []byte) (int, error)
	ReadAt(b []byte, off int64) (int, error)
	Seek(off int64, whence int) (int64, error)
	Truncate(sz int64) error
	Close() error
	Size() (int64, error)
	Ino() uint64
	MTime() int64
}

type DirEnt struct {
	Name  string
	IsDir bool
	Size  int64
	MTime int64
}

type FInfo struct {
	Name  string
	Size  int64
	IsDir bool
	Ino   uint64
	Gen   uint64 // content generation (MemFS: write counter; RealFS: mtime)
	MTime int64  // modification time, ns on the simulated clock (RealFS: the kernel's mtime)
}

// ---------------------------------------------------------------- MemFS

// Inode of the simulated disk. An unlinked inode stays readable and
// writable through descriptors that were open.
type Inode struct {
	ID    uint64
	Data  []byte
	Gen   uint64 // incremented on every content change
	Nlink int
	MTime int64 // simulated clock (ns) at creation / the last content change
}

// fsNow is the simulated clock as the disk sees it.
func fsNow() int64 {
	if G != nil {
		return G.Now
	}
	return 0
}

type MemFS struct {
	files   map[string]*Inode
	dirs    map[string]bool
	nextIno uint64
}

func NewMemFS() *MemFS {
	return &MemFS{files: map[string]*Inode{}, dirs: map[string]bool{"/": true}, nextIno: 1}
}

func clean(p string) string { return filepath.Clean(p) }

func pathErr(op, p string, e error) error { return &os.PathError{Op: op, Path: p, Err: e} }

func (fs *MemFS) parentOK(p string) bool {
	d := filepath.Dir(p)
	return fs.dirs[d]
}

// Lookup returns the inode currently named p (nil if none). Not a
// simulated call: for monitors.
func (fs *MemFS) Lookup(p string) *Inode { return fs.files[clean(p)] }

// Names returns the sorted entry names of dir. Not a simulated call.
func (fs *MemFS) Names(dir string) []string {
	dir = clean(dir)
	var res []string
	for p := range fs.files {
		if filepath.Dir(p) == dir {
			res = append(res, filepath.Base(p))
		}
	}
	for p := range fs.dirs {
		if p != dir && filepath.Dir(p) == dir {
			res = append(res, filepath.Base(p))
		}
	}
	sort.Strings(res)
	return res
}

type memHandle struct {
	fs     *MemFS
	ino    *Inode
	off    int64
	flag   int
	closed bool
}

func (fs *MemFS) OpenFile(name string, flag int, perm os.FileMode) (Handle, error) {
	p := clean(name)
	if fs.dirs[p] {
		if flag&os.O_CREATE != 0 && flag&os.O_EXCL != 0 {
			return nil, pathErr("open", name, syscall.EEXIST)
		}
		return nil, pathErr("open", name, syscall.EISDIR)
	}
	ino := fs.files[p]
	if ino != nil {
		if flag&os.O_CREATE != 0 && flag&os.O_EXCL != 0 {
			return nil, pathErr("open", name, syscall.EEXIST)
		}
		if flag&os.O_TRUNC != 0 && flag&(os.O_WRONLY|os.O_RDWR) != 0 {
			ino.Data = nil
			ino.Gen++
			ino.MTime = fsNow()
		}
	} else {
		if flag&os.O_CREATE == 0 {
			return nil, pathErr("open", name, syscall.ENOENT)
		}
		if !fs.parentOK(p) {
			return nil, pathErr("open", name, syscall.ENOENT)
		}
		ino = &Inode{ID: fs.nextIno, Nlink: 1, MTime: fsNow()}
		fs.nextIno++
		fs.files[p] = ino
	}
	return &memHandle{fs: fs, ino: ino, flag: flag}, nil
}

func (fs *MemFS) Rename(oldp, newp string) error {
	o, n := clean(oldp), clean(newp)
	ino := fs.files[o]
	if ino == nil {
		if fs.dirs[o] {
			return &os.LinkError{Op: "rename", Old: oldp, New: newp, Err: syscall.EXDEV}
		}
		return &os.LinkError{Op: "rename", Old: oldp, New: newp, Err: syscall.ENOENT}
	}
	if fs.dirs[n] {
		return &os.LinkError{Op: "rename", Old: oldp, New: newp, Err: syscall.EISDIR}
	}
	if !fs.parentOK(n) {
		return &os.LinkError{Op: "rename", Old: oldp, New: newp, Err: syscall.ENOENT}
	}
	if o == n {
		return nil
	}
	if old := fs.files[n]; old != nil {
		if old == ino {
			// rename of two hard links to the same inode: POSIX no-op.
			return nil
		}
		old.Nlink--
	}
	fs.files[n] = ino
	delete(fs.files, o)
	return nil
}

func (fs *MemFS) Link(oldp, newp string) error {
	o, n := clean(oldp), clean(newp)
	ino := fs.files[o]
	if ino == nil {
		return &os.LinkError{Op: "link", Old: oldp, New: newp, Err: syscall.ENOENT}
	}
	if fs.files[n] != nil || fs.dirs[n] {
		return &os.LinkError{Op: "link", Old: oldp, New: newp, Err: syscall.EEXIST}
	}
	if !fs.parentOK(n) {
		return &os.LinkError{Op: "link", Old: oldp, New: newp, Err: syscall.ENOENT}
	}
	ino.Nlink++
	fs.files[n] = ino
	return nil
}

func (fs *MemFS) Remove(name string) error {
	p := clean(name)
	if ino := fs.files[p]; ino != nil {
		ino.Nlink--
		delete(fs.files, p)
		return nil
	}
	if fs.dirs[p] {
		if len(fs.Names(p)) > 0 {
			return pathErr("remove", name, syscall.ENOTEMPTY)
		}
		delete(fs.dirs, p)
		return nil
	}
	return pathErr("remove", name, syscall.ENOENT)
}

func (fs *MemFS) ReadFile(name string) ([]byte, error) {
	p := clean(name)
	if fs.dirs[p] {
		return nil, pathErr("read", name, syscall.EISDIR)
	}
	ino := fs.files[p]
	if ino == nil {
		return nil, pathErr("open", name, syscall.ENOENT)
	}
	out := make([]byte, len(ino.Data))
	copy(out, ino.Data)
	return out, nil
}

func (fs *MemFS) ReadDir(name string) ([]DirEnt, error) {
	p := clean(name)
	if !fs.dirs[p] {
		if fs.files[p] != nil {
			return nil, pathErr("readdirent", name, syscall.ENOTDIR)
		}
		return nil, pathErr("open", name, syscall.ENOENT)
	}
	var res []DirEnt
	for _, n := range fs.Names(p) {
		full := filepath.Join(p, n)
		if fs.dirs[full] {
			res = append(res, DirEnt{Name: n, IsDir: true})
		} else {
			res = append(res, DirEnt{Name: n, Size: int64(len(fs.files[full].Data)), MTime: fs.files[full].MTime})
		}
	}
	return res, nil
}

func (fs *MemFS) MkdirAll(name string) error {
	p := clean(name)
	var parts []string
	for q := p; q != "/" && q != "."; q = filepath.Dir(q) {
		parts = append(parts, q)
	}
	for i := len(parts) - 1; i >= 0; i-- {
		if fs.files[parts[i]] != nil {
			return pathErr("mkdir", parts[i], syscall.ENOTDIR)
		}
		fs.dirs[parts[i]] = true
	}
	return nil
}

func (fs *MemFS) RemoveAll(name string) error {
	p := clean(name)
	pre := p + "/"
	for q, ino := range fs.files {
		if q == p || strings.HasPrefix(q, pre) {
			ino.Nlink--
			delete(fs.files, q)
		}
	}
	for q := range fs.dirs {
		if q == p || strings.HasPrefix(q, pre) {
			delete(fs.dirs, q)
		}
	}
	return nil
}

func (fs *MemFS) Stat(name string) (FInfo, error) {
	p := clean(name)
	if fs.dirs[p] {
		return FInfo{Name: filepath.Base(p), IsDir: true}, nil
	}
	if ino := fs.files[p]; ino != nil {
		return FInfo{Name: filepath.Base(p), Size: int64(len(ino.Data)), Ino: ino.ID, Gen: ino.Gen, MTime: ino.MTime}, nil
	}
	return FInfo{}, pathErr("stat", name, syscall.ENOENT)
}

func (h *memHandle) Ino() uint64 { return h.ino.ID }
func (h *memHandle) MTime() int64 { return h.ino.MTime }

func (h *memHandle) Write(b []byte) (int, error) {
	if h.closed {
		return 0, os.ErrClosed
	}
	if h.flag&(os.O_WRONLY|os.O_RDWR) == 0 {
		return 0, syscall.EBADF
	}
	if len(b) == 0 {
		return 0, nil
	}
	if h.flag&os.O_APPEND != 0 {
		h.off = int64(len(h.ino.Data))
	}
	end := h.off + int64(len(b))
	if end > int64(len(h.ino.Data)) {
		nd := make([]byte, end)
		copy(nd, h.ino.Data)
		h.ino.Data = nd
	}
	copy(h.ino.Data[h.off:], b)
	h.off = end
	h.ino.Gen++
	h.ino.MTime = fsNow()
	return len(b), nil
}

func (h *memHandle) Read(b []byte) (int, error) {
	if h.closed {
		return 0, os.ErrClosed
	}
	if len(b) == 0 {
		return 0, nil
	}
	if h.flag&os.O_WRONLY != 0 {
		return 0, syscall.EBADF
	}
	if h.off >= int64(len(h.ino.Data)) {
		return 0, io.EOF
	}
	n := copy(b, h.ino.Data[h.off:])
	h.off += int64(n)
	return n, nil
}

func (h *memHandle) ReadAt(b []byte, off int64) (int, error) {
	if off < 0 {
		return 0, syscall.EINVAL
	}
	if len(b) == 0 {
		return 0, nil
	}
	if h.closed {
		return 0, os.ErrClosed
	}
	if h.flag&os.O_WRONLY != 0 {
		return 0, syscall.EBADF
	}
	if off >= int64(len(h.ino.Data)) {
		return 0, io.EOF
	}
	n := copy(b, h.ino.Data[off:])
	if n < len(b) {
		return n, io.EOF
	}
	return n, nil
}

func (h *memHandle) Seek(off int64, whence int) (int64, error) {
	if h.closed {
		return 0, os.ErrClosed
	}
	var base int64
	switch whence {
	case io.SeekStart:
	case io.SeekCurrent:
		base = h.off
	case io.SeekEnd:
		base = int64(len(h.ino.Data))
	default:
		return 0, syscall.EINVAL
	}
	if base+off < 0 {
		return 0, syscall.EINVAL
	}
	h.off = base + off
	return h.off, nil
}

func (h *memHandle) Truncate(sz int64) error {
	if h.closed {
		return os.ErrClosed
	}
	if h.flag&(os.O_WRONLY|os.O_RDWR) == 0 {
		return syscall.EINVAL
	}
	if sz < 0 {
		return syscall.EINVAL
	}
	nd := make([]byte, sz)
	copy(nd, h.ino.Data)
	h.ino.Data = nd
	h.ino.Gen++
	h.ino.MTime = fsNow()
	return nil
}

func (h *memHandle) Close() error {
	if h.closed {
		return os.ErrClosed
	}
	h.closed = true
	return nil
}

func (h *memHandle) Size() (int64, error) {
	if h.closed {
		return 0, os.ErrClosed
	}
	return int64(len(h.ino.Data)), nil
}

// ---------------------------------------------------------------- RealFS

// RealFS maps the simulated path space onto a real directory.
type RealFS struct{ Root string }

func (r *RealFS) p(name string) string { return filepath.Join(r.Root, clean(name)) }

// strip rewrites the real path inside an error back to the simulated path,
// so that error texts agree between back ends.
func (r *RealFS) strip(err error) error {
	switch e := err.(type) {
	case *os.PathError:
		return &os.PathError{Op: e.Op, Path: strings.TrimPrefix(e.Path, r.Root), Err: e.Err}
	case *os.LinkError:
		return &os.LinkError{Op: e.Op, Old: strings.TrimPrefix(e.Old, r.Root), New: strings.TrimPrefix(e.New, r.Root), Err: e.Err}
	}
	return err
}

type realHandle struct{ f *os.File }

func (r *RealFS) OpenFile(name string, flag int, perm os.FileMode) (Handle, error) {
	f, err := os.OpenFile(r.p(name), flag, perm)
	if err != nil {
		return nil, r.strip(err)
	}
	if fi, err := f.Stat(); err == nil && fi.IsDir() {
		f.Close()
		return nil, pathErr("open", name, syscall.EISDIR)
	}
	return &realHandle{f}, nil
}
func (r *RealFS) Rename(o, n string) error { return r.strip(os.Rename(r.p(o), r.p(n))) }
func (r *RealFS) Link(o, n string) error   { return r.strip(os.Link(r.p(o), r.p(n))) }
func (r *RealFS) Remove(n string) error    { return r.strip(os.Remove(r.p(n))) }
func (r *RealFS) ReadFile(n string) ([]byte, error) {
	b, err := os.ReadFile(r.p(n))
	return b, r.strip(err)
}
func (r *RealFS) ReadDir(n string) ([]DirEnt, error) {
	es, err := os.ReadDir(r.p(n))
	if err != nil {
		return nil, r.strip(err)
	}
	var res []DirEnt
	for _, e := range es {
		d := DirEnt{Name: e.Name(), IsDir: e.IsDir()}
		if fi, err := e.Info(); err == nil && !e.IsDir() {
			d.Size = fi.Size()
			d.MTime = fi.ModTime().UnixNano()
		}
		res = append(res, d)
	}
	return res, nil
}
func (r *RealFS) MkdirAll(n string) error  { return r.strip(os.MkdirAll(r.p(n), 0755)) }
func (r *RealFS) RemoveAll(n string) error { return r.strip(os.RemoveAll(r.p(n))) }
func (r *RealFS) Stat(n string) (FInfo, error) {
	fi, err := os.Stat(r.p(n))
	if err != nil {
		return FInfo{}, r.strip(err)
	}
	res := FInfo{Name: fi.Name(), Size: fi.Size(), IsDir: fi.IsDir(), Gen: uint64(fi.ModTime().UnixNano()), MTime: fi.ModTime().UnixNano()}
	if st, ok := fi.Sys().(*syscall.Stat_t); ok {
		res.Ino = st.Ino
	}
	if res.IsDir {
		res.Size = 0
	}
	return res, nil
}

func (h *realHandle) Write(b []byte) (int, error) { return h.f.Write(b) }
func (h *realHandle) Read(b []byte) (int, error)  { return h.f.Read(b) }
func (h *realHandle) ReadAt(b []byte, off int64) (int, error) {
	return h.f.ReadAt(b, off)
}
func (h *realHandle) Seek(off int64, wh int) (int64, error) { return h.f.Seek(off, wh) }
func (h *realHandle) Truncate(sz int64) error               { return h.f.Truncate(sz) }
func (h *realHandle) Close() error                          { return h.f.Close() }
func (h *realHandle) MTime() int64 {
	if fi, err := h.f.Stat(); err == nil {
		return fi.ModTime().UnixNano()
	}
	return 0
}
func (h *realHandle) Size() (int64, error) {
	fi, err := h.f.Stat()
	if err != nil {
		return 0, err
	}
	return fi.Size(), nil
}
func (h *realHandle) Ino() uint64 {
	fi, err := h.f.Stat()
	if err != nil {
		return 0
	}
	if st, ok := fi.Sys().(*syscall.Stat_t); ok {
		return st.Ino
	}
	return 0
}
