// racer is built with -race from the UNREWRITTEN library sources: the same
// seeded read programs as S-SHARE run on free-running goroutines over one
// shared Reader (memory- and file-backed), Merged and Stack.Merged().
// Exit 66: the race detector fired. Exit 1: concurrent results differ from
// sequential ones.
package main

import (
	"fmt"
	"os"
	"path/filepath"
	"strconv"
	"strings"
	"sync"

	"verifsim/harness"
	"verifsim/reftable"
)

func main() {
	first, _ := strconv.ParseUint(os.Args[1], 10, 64)
	count, _ := strconv.Atoi(os.Args[2])
	dir, err := os.MkdirTemp("", "verif-race-")
	if err != nil {
		fmt.Println(err)
		os.Exit(2)
	}
	defer os.RemoveAll(dir)
	bad := 0
	for c := 0; c < count; c++ {
		seed := harness.RunSeed(first, "C19-race", c)
		spec := harness.GenShare("C19", seed)
		ss := harness.ShareSpecOf(spec)
		tabs, err := harness.ShareTables(ss, spec.Cfg)
		if err != nil {
			continue
		}
		hs := spec.Cfg.HashSize()
		hid := reftable.SHA1ID
		if spec.Cfg.Hash == "s256" {
			hid = reftable.SHA256ID
		}
		sub := filepath.Join(dir, fmt.Sprint(c))
		os.MkdirAll(sub, 0755)
		names := []string{"0x000000000001-0x000000000003-aaaaaaaa.ref", "0x00000000000a-0x00000000000c-bbbbbbbb.ref", "0x000000000014-0x000000000016-cccccccc.ref"}
		for i, n := range names {
			os.WriteFile(filepath.Join(sub, n), tabs[i], 0644)
		}
		os.WriteFile(filepath.Join(sub, "tables.list"), []byte(strings.Join(names, "\n")), 0644)
		var closers []func()
		build := func() (reftable.Table, error) {
			mk := func(i int) (*reftable.Reader, error) {
				return reftable.NewReader(&reftable.ByteBlockSource{Source: tabs[i]}, names[i])
			}
			switch ss.Target {
			case "reader-bytes":
				return mk(0)
			case "reader-file":
				bs, err := reftable.NewFileBlockSource(filepath.Join(sub, names[0]))
				if err != nil {
					return nil, err
				}
				rd, err := reftable.NewReader(bs, names[0])
				if err == nil {
					closers = append(closers, rd.Close)
				}
				return rd, err
			case "merged":
				var ts []reftable.Table
				for i := range tabs {
					rd, err := mk(i)
					if err != nil {
						return nil, err
					}
					ts = append(ts, rd)
				}
				return reftable.NewMerged(ts, hid)
			default:
				st, err := reftable.NewStack(sub, reftable.Config{HashID: hid})
				if err != nil {
					return nil, err
				}
				closers = append(closers, func() {
					for _, r := range reftable.SimReaders(st) {
						r.Close()
					}
				})
				return st.Merged(), nil
			}
		}
		expected := make([][]string, len(ss.Programs))
		for i, prog := range ss.Programs {
			ref, err := build()
			if err != nil {
				fmt.Println("build:", err)
				os.Exit(2)
			}
			for _, op := range prog {
				expected[i] = append(expected[i], harness.RunShareOp(ref, op, hs))
			}
		}
		shared, err := build()
		if err != nil {
			fmt.Println("build:", err)
			os.Exit(2)
		}
		got := make([][]string, len(ss.Programs))
		var wg sync.WaitGroup
		start := make(chan struct{})
		for i := range ss.Programs {
			wg.Add(1)
			go func(i int) {
				defer wg.Done()
				<-start
				for _, op := range ss.Programs[i] {
					got[i] = append(got[i], harness.RunShareOp(shared, op, hs))
				}
			}(i)
		}
		close(start)
		wg.Wait()
		for i := range ss.Programs {
			for j := range ss.Programs[i] {
				if got[i][j] != expected[i][j] {
					fmt.Printf("case %d (seed %d, %s): goroutine %d op %d (%s %q): concurrent %s, alone %s\n", c, seed, ss.Target, i, j, ss.Programs[i][j].Kind, ss.Programs[i][j].Key, got[i][j], expected[i][j])
					bad++
				}
			}
		}
		for _, cl := range closers {
			cl()
		}
	}
	if bad > 0 {
		os.Exit(1)
	}
}
