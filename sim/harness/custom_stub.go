package harness

// placeholders until the dedicated scenarios are written
func ExecuteCorrupt(spec *RunSpec, opts RunOpts) *RunResult { panic("S-CORRUPT not built yet") }
func ExecuteShare(spec *RunSpec, opts RunOpts) *RunResult   { panic("S-SHARE not built yet") }
