package main

import (
	"flag"
	"fmt"
	"os"
	"sort"

	"verifsim/harness"
	"verifsim/simrt"
)

func main() {
	if len(os.Args) < 2 {
		fmt.Fprintln(os.Stderr, "usage: sim <try|...>")
		os.Exit(2)
	}
	switch os.Args[1] {
	case "try":
		try(os.Args[2:])
	default:
		os.Exit(harness.Main(os.Args[1:]))
	}
}

func try(args []string) {
	fs := flag.NewFlagSet("try", flag.ExitOnError)
	scen := fs.String("scenario", "turn", "")
	n := fs.Int("n", 100, "")
	seed := fs.Uint64("seed", 1, "")
	verbose := fs.Bool("v", false, "")
	one := fs.Uint64("one", 0, "run this single run seed and print its trace")
	fs.Parse(args)
	p := &harness.Profile{MinTasks: 2, MaxTasks: 3, MinOps: 3, MaxOps: 6, InitMax: 4, Logs: true, AutoP: 0.5, HandlesPerTask: 3,
		RefsPerTxn: [2]int{0, 3}, LogsPerTxn: [2]int{0, 2}, SkipNameCheckP: 0.3,
		W: map[string]int{harness.OpAdd: 10, harness.OpAddMulti: 2, harness.OpCompactAll: 2, harness.OpExpire: 1, harness.OpAutoCompact: 2, harness.OpCompactRange: 2, harness.OpClean: 1, harness.OpRead: 2, harness.OpReopen: 1, harness.OpUpToDate: 1}}
	sigs := map[string]int{}
	first := map[string]string{}
	steps := 0
	if *one != 0 {
		*n = 1
		*verbose = true
	}
	for i := 0; i < *n; i++ {
		s := simrt.Hash4(*seed, *scen, uint64(i), 0)
		if *one != 0 {
			s = *one
		}
		var spec *harness.RunSpec
		if *scen == "turn" {
			spec = harness.GenTurn("X", s, p)
		} else {
			spec = harness.GenConc("X", s, p)
		}
		res := harness.Execute(spec, harness.RunOpts{StopOn: "*", KeepLog: *verbose})
		steps += res.Steps
		if *one != 0 {
			for _, l := range res.Trace {
				fmt.Println(l)
			}
		}
		for _, v := range res.Violations {
			sigs[v.Signature]++
			if _, ok := first[v.Signature]; !ok {
				first[v.Signature] = fmt.Sprintf("run %d seed %d: %s", i, s, v.Detail)
			}
		}
	}
	var keys []string
	for k := range sigs {
		keys = append(keys, k)
	}
	sort.Strings(keys)
	for _, k := range keys {
		fmt.Printf("%6d %s\n       %s\n", sigs[k], k, first[k])
	}
	fmt.Println("steps", steps)
}
