// Package harness holds everything that decides what is true: workload
// specifications, the sequential reference model, the observer, the
// monitors, scenario generators, the trace minimiser and evidence writers.
package harness

import (
	"encoding/json"
	"fmt"

	"verifsim/simrt"
)

// CfgSpec is the write configuration of a run.
type CfgSpec struct {
	Hash             string `json:"hash"` // sha1 | s256
	BlockSize        uint32 `json:"block_size"`
	Restart          int    `json:"restart"`
	Unaligned        bool   `json:"unaligned,omitempty"`
	SkipIndexObjects bool   `json:"skip_index_objects,omitempty"`
	ExactLog         bool   `json:"exact_log,omitempty"`
	SkipNameCheck    bool   `json:"skip_name_check,omitempty"`
}

func (c CfgSpec) HashSize() int {
	if c.Hash == "s256" {
		return 32
	}
	return 20
}

// Ref kinds.
const (
	RefDel    = 0
	RefVal    = 1
	RefPeeled = 2
	RefSym    = 3
)

// RefSpec is one ref record of a transaction. Values are derived from
// (transaction id, name) so that every written value is unique and every
// record read is attributable to one write; OidTag>0 selects a shared
// object id instead (RefsFor workloads).
type RefSpec struct {
	Name      string `json:"name"`
	Kind      int    `json:"kind"`
	Target    string `json:"target,omitempty"`
	TargetLen int    `json:"target_len,omitempty"` // >0: a long symbolic target of this many bytes
	OidTag    int    `json:"oid,omitempty"`
	PeelTag   int    `json:"peel,omitempty"`
	Off       int    `json:"off,omitempty"` // update index offset inside the transaction's span
}

// LogSpec is one reflog record of a transaction. Which<0: a new entry at
// the transaction's own update index (+Off). Which>=0: addresses the
// Which-th (newest first, modulo count) existing entry of Name in the
// committed state — to overwrite it, or with Del to delete it.
type LogSpec struct {
	Name   string `json:"name"`
	Which  int    `json:"which"`
	Off    int    `json:"off,omitempty"`
	Fwd    int    `json:"fwd,omitempty"` // >0 (with Which<0): the entry's update index lies Fwd above the transaction's last index (imported / independently numbered reflog)
	Del    bool   `json:"del,omitempty"`
	Time   uint64 `json:"time,omitempty"`
	TZ     int16  `json:"tz,omitempty"`
	Msg    string `json:"msg,omitempty"`
	Who    int    `json:"who,omitempty"`
	NilOld bool   `json:"nil_old,omitempty"`
	NilNew bool   `json:"nil_new,omitempty"`
}

// TxnSpec is one table-producing transaction.
type TxnSpec struct {
	ID   int       `json:"id"`
	Span int       `json:"span,omitempty"` // number of update indices covered (default 1)
	Jump uint64    `json:"jump,omitempty"` // the limits start this far above the next update index (callers may use timestamps as indices)
	Refs []RefSpec `json:"refs,omitempty"`
	Logs []LogSpec `json:"logs,omitempty"`
	// Bad marks a transaction generated to be rejected by the writer:
	// "stale-index" (limits below the next update index),
	// "big" (a record larger than a block), "closure-error".
	Bad string `json:"bad,omitempty"`
}

type ExpSpec struct {
	Time uint64 `json:"time,omitempty"`
	Min  uint64 `json:"min,omitempty"`
	Max  uint64 `json:"max,omitempty"`
}

// ReadSpec parameterises a Read op.
type ReadSpec struct {
	Seeks   int  `json:"seeks,omitempty"`
	RefsFor bool `json:"refs_for,omitempty"`
}

// Op kinds.
const (
	OpOpen         = "open"
	OpClose        = "close"
	OpReopen       = "reopen"
	OpAdd          = "add"
	OpAddMulti     = "addmulti"
	OpCompactAll   = "compactall"
	OpExpire       = "expire"
	OpAutoCompact  = "autocompact"
	OpCompactRange = "compactrange"
	OpClean        = "clean"
	OpUpToDate     = "uptodate"
	OpRead         = "read"
	OpSetAuto      = "setauto"
	OpBegin        = "begin"  // NewAddition + Addition.Add per transaction; the lock stays held
	OpCommit       = "commit" // Commit + Close of the handle's open Addition
	OpAbort        = "abort"  // Close of the handle's open Addition without Commit
	// OpRmLock: the operator's recovery step after a crash - tables.list.lock
	// is removed if (and only if) the process that created it is dead.
	OpRmLock = "rmlock"
)

type OpSpec struct {
	Kind  string    `json:"kind"`
	H     int       `json:"h"` // handle index (global over the run)
	Txns  []TxnSpec `json:"txns,omitempty"`
	Exp   *ExpSpec  `json:"exp,omitempty"`
	First int       `json:"first,omitempty"`
	Last  int       `json:"last,omitempty"`
	Auto  bool      `json:"auto,omitempty"` // open/reopen/setauto: automatic compaction on
	Read  ReadSpec  `json:"read,omitempty"`
}

type TaskSpec struct {
	Name string   `json:"name"`
	Ops  []OpSpec `json:"ops"`
}

// SchedSpec selects the scheduling strategy of the concurrent phase.
type SchedSpec struct {
	Mode   string          `json:"mode"` // uniform | sticky | pct | replay | sequential
	StickP float64         `json:"stick_p,omitempty"`
	LocalP float64         `json:"local_p,omitempty"`
	Depth  int             `json:"depth,omitempty"`
	EstLen int             `json:"est_len,omitempty"`
	Bias   []string        `json:"bias,omitempty"`
	Segs   []simrt.Segment `json:"segs,omitempty"` // replay
}

// RunSpec is one execution. With Sched.Mode=="replay" it is a
// self-contained replay file body.
type RunSpec struct {
	Property string           `json:"property"`
	Scenario string           `json:"scenario"`
	Seed     uint64           `json:"seed"`
	Cfg      CfgSpec          `json:"cfg"`
	Setup    []OpSpec         `json:"setup,omitempty"` // run by a setup task alone, before the concurrent phase
	Tasks    []TaskSpec       `json:"tasks"`
	After    []TaskSpec       `json:"after,omitempty"` // run one after another once the concurrent phase is over (restart / survivor processes)
	Sched    SchedSpec        `json:"sched"`
	Faults   []simrt.Fault    `json:"faults,omitempty"`
	NoFinal  bool             `json:"no_final,omitempty"`
	Extra    *json.RawMessage `json:"extra,omitempty"`   // scenario-specific payload (C17/C18/C19)
	Backend  string           `json:"backend,omitempty"` // "" (mem) | real
}

// ReplayFile is what VIOLATION lines point at.
type ReplayFile struct {
	Property      string   `json:"property"`
	Signature     string   `json:"signature"`
	Detail        string   `json:"detail"`
	LogHash       string   `json:"log_hash"`
	Spec          RunSpec  `json:"spec"`
	Trace         []string `json:"trace_tail,omitempty"`
	MinimisedFrom string   `json:"minimised_from,omitempty"`
}

// Violation is one monitor firing.
type Violation struct {
	Property  string `json:"property"`
	Monitor   string `json:"monitor"`
	Signature string `json:"signature"` // stable identification (property/monitor/call sites/op kinds)
	Detail    string `json:"detail"`
	Seq       int    `json:"seq"`
}

func (v Violation) String() string {
	return fmt.Sprintf("%s %s: %s", v.Property, v.Signature, v.Detail)
}
