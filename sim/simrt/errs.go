package simrt

import (
	"errors"
	"io"
	"os"
	"syscall"
)

// ErrClass maps an error to a short, backend-independent class name.
func ErrClass(err error) string {
	if err == nil {
		return ""
	}
	if err == Refused {
		return "EKILLED"
	}
	if err == io.EOF {
		return "EOF"
	}
	if errors.Is(err, os.ErrClosed) {
		return "ECLOSED"
	}
	var en syscall.Errno
	if errors.As(err, &en) {
		switch en {
		case syscall.EEXIST:
			return "EEXIST"
		case syscall.ENOENT:
			return "ENOENT"
		case syscall.EISDIR:
			return "EISDIR"
		case syscall.ENOTDIR:
			return "ENOTDIR"
		case syscall.ENOTEMPTY:
			return "ENOTEMPTY"
		case syscall.EBADF:
			return "EBADF"
		case syscall.EINVAL:
			return "EINVAL"
		case syscall.EIO:
			return "EIO"
		case syscall.ENOSPC:
			return "ENOSPC"
		case syscall.EXDEV:
			return "EXDEV"
		}
		return en.Error()
	}
	if errors.Is(err, os.ErrInvalid) {
		return "EINVAL"
	}
	return "ERR:" + err.Error()
}
