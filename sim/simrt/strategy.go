package simrt

// ---------------------------------------------------------------- strategies

// Sequential: always the lowest-numbered runnable task, no preemption
// (continue the current task while it is runnable).
type Sequential struct{}

func (Sequential) Next(s *Sim, r []*Task, cur *Task) *Task {
	for _, t := range r {
		if t == cur {
			return t
		}
	}
	return r[0]
}

func contains(r []*Task, t *Task) bool {
	for _, x := range r {
		if x == t {
			return true
		}
	}
	return false
}

// Replay follows recorded segments with total semantics: if the named task
// is not runnable the lowest-numbered runnable task runs; when the list is
// exhausted the current task continues (else the lowest-numbered).
type Replay struct {
	Segs []Segment
	i, n int
}

func (p *Replay) Next(s *Sim, r []*Task, cur *Task) *Task {
	for p.i < len(p.Segs) && !p.Segs[p.i].Kill && p.n >= p.Segs[p.i].Steps {
		p.i++
		p.n = 0
	}
	if p.i < len(p.Segs) {
		id := p.Segs[p.i].Task
		if p.Segs[p.i].Kill {
			// the scheduler kills the task at this decision (its crash
			// fault is addressed at the call it is parked at)
			p.i++
			p.n = 0
		} else {
			p.n++
		}
		for _, t := range r {
			if t.ID == id {
				return t
			}
		}
		return r[0]
	}
	if cur != nil && contains(r, cur) {
		return cur
	}
	return r[0]
}

// Random family. Mode: "uniform", "sticky", "pct".
type Random struct {
	Rng    *Rng
	Mode   string
	StickP float64 // sticky: probability of continuing the current task
	LocalP float64 // probability that a descriptor-local call is a decision point
	// PCT
	prio    map[int]int
	changes map[int]bool
	inited  bool
	Depth   int
	EstLen  int
	low     int
	// Bias: force a switch right after certain events.
	Bias map[string]bool
	// ForceSwitch is set by the harness' event hook when a biased event
	// just happened.
	ForceSwitch bool
}

func (p *Random) initPCT(s *Sim) {
	p.prio = map[int]int{}
	perm := p.Rng.Perm(len(s.Tasks))
	for i, t := range s.Tasks {
		p.prio[t.ID] = perm[i] + 1000
	}
	p.changes = map[int]bool{}
	if p.EstLen < 10 {
		p.EstLen = 10
	}
	for i := 0; i < p.Depth-1; i++ {
		p.changes[s.Steps+1+p.Rng.Intn(p.EstLen)] = true
	}
	p.low = 999
	p.inited = true
}

func (p *Random) Next(s *Sim, r []*Task, cur *Task) *Task {
	curOK := cur != nil && contains(r, cur)
	if len(r) == 1 {
		p.ForceSwitch = false
		return r[0]
	}
	if p.ForceSwitch {
		p.ForceSwitch = false
		if curOK {
			var others []*Task
			for _, t := range r {
				if t != cur {
					others = append(others, t)
				}
			}
			t := others[p.Rng.Intn(len(others))]
			if p.Mode == "pct" && p.inited {
				// demote the current task.
				p.prio[cur.ID] = p.low
				p.low--
			}
			return t
		}
	}
	if curOK && cur.Pending.Local && p.LocalP < 1 {
		if p.LocalP <= 0 || !p.Rng.Bool(p.LocalP) {
			return cur
		}
	}
	switch p.Mode {
	case "pct":
		if !p.inited {
			p.initPCT(s)
		}
		if p.changes[s.Steps] && curOK {
			p.prio[cur.ID] = p.low
			p.low--
		}
		best := r[0]
		for _, t := range r[1:] {
			if p.prio[t.ID] > p.prio[best.ID] {
				best = t
			}
		}
		return best
	case "sticky":
		if curOK && p.Rng.Bool(p.StickP) {
			return cur
		}
		if curOK {
			var others []*Task
			for _, t := range r {
				if t != cur {
					others = append(others, t)
				}
			}
			return others[p.Rng.Intn(len(others))]
		}
		return r[p.Rng.Intn(len(r))]
	default:
		return r[p.Rng.Intn(len(r))]
	}
}
