package harness

import (
	"fmt"
	"path/filepath"
	"runtime/debug"
	"sort"
	"strings"

	"verifsim/reftable"
	"verifsim/simrt"
)

// handle returns the state slot of handle index h.
func (w *World) handle(h int, task int) *HandleState {
	for len(w.Handles) <= h {
		w.Handles = append(w.Handles, &HandleState{Idx: len(w.Handles), Version: -1, Task: -1})
	}
	hs := w.Handles[h]
	if hs.Task < 0 {
		hs.Task = task
	}
	return hs
}

func errClass(err error) string {
	switch {
	case err == nil:
		return "ok"
	case err == reftable.ErrLockFailure:
		return "lockfail"
	}
	return "error"
}

// RunOps executes a program inside task t.
func (w *World) RunOps(t *simrt.Task, ops []OpSpec) {
	for i := range ops {
		if w.Sim.Stop {
			return
		}
		w.runOp(t, &ops[i], false)
	}
}

func toRefRecord(r Ref) reftable.RefRecord {
	return reftable.RefRecord{RefName: r.Name, UpdateIndex: r.Idx, Value: r.Value, TargetValue: r.Peeled, Target: r.Target}
}

func toLogRecord(l Log) reftable.LogRecord {
	if l.Del {
		return reftable.LogRecord{RefName: l.Name, UpdateIndex: l.Idx}
	}
	return reftable.LogRecord{RefName: l.Name, UpdateIndex: l.Idx, Old: l.Old, New: l.New, Name: l.Who, Email: l.Email, Time: l.Time, TZOffset: l.TZ, Message: l.Msg}
}

// writeFn builds the write closure of one transaction.
func (w *World) writeFn(t *simrt.Task, cr *CallRec, tx *TxnSpec, base func() uint64) func(wr *reftable.Writer) error {
	return func(wr *reftable.Writer) error {
		b := base() + tx.Jump
		bad := ""
		if tx.Bad == "stale-index" && b > 1 && tx.Jump == 0 {
			b--
			bad = tx.Bad
		}
		if tx.Bad == "closure-error" {
			cr.Written = append(cr.Written, WrittenTable{Txn: tx.ID, Base: b, Rejected: true, Bad: tx.Bad})
			return fmt.Errorf("harness: closure refuses")
		}
		var refs []Ref
		var logs []Log
		t.Quiet(func() {
			lv := w.Latest()
			st := lv.View
			if st == nil {
				st = lv.Model
			}
			refs, logs = Materialise(tx, b, w.Spec.Cfg, st)
			if tx.Bad == "big" {
				refs = append(refs, Ref{Name: "zzz/big", Idx: b, Kind: RefSym, Target: strings.Repeat("x", 70000)})
				bad = tx.Bad
			}
		})
		span := tx.Span
		if span < 1 {
			span = 1
		}
		wr.SetLimits(b, b+uint64(span)-1)
		wt := WrittenTable{Txn: tx.ID, Base: b, Refs: refs, Logs: logs, Empty: len(refs)+len(logs) == 0, Bad: bad}
		if wt.Empty && bad == "stale-index" {
			wt.Bad = "" // a transaction without records is never written, whatever its limits
		}
		for _, r := range refs {
			rec := toRefRecord(r)
			if err := wr.AddRef(&rec); err != nil {
				wt.Rejected = true
				cr.Written = append(cr.Written, wt)
				return err
			}
		}
		for _, l := range logs {
			rec := toLogRecord(l)
			if err := wr.AddLog(&rec); err != nil {
				wt.Rejected = true
				cr.Written = append(cr.Written, wt)
				return err
			}
		}
		cr.Written = append(cr.Written, wt)
		return nil
	}
}

// predictedRejection: does the statement allow this transaction to be
// refused for its own content?
func (w *World) predictedRejection(cr *CallRec, against *State) (bool, string) {
	if cr.Spec == nil {
		return false, ""
	}
	if cr.Kind == OpBegin {
		// tables are judged one by one: a refused table does not end the
		// transaction, later tables are checked on top of the accepted ones
		var accepted [][]Ref
		why := ""
		for _, wt := range cr.Written {
			if !wt.Rejected {
				if !wt.Empty {
					accepted = append(accepted, wt.Refs)
				}
				continue
			}
			switch {
			case wt.Bad != "":
				why = "bad:" + wt.Bad
			case !w.Spec.Cfg.ExactLog && hasMultiline(wt.Logs):
				why = "multiline-message"
			default:
				if w.Spec.Cfg.SkipNameCheck || against == nil {
					return false, ""
				}
				ok, y := LegalTxn(against, append(append([][]Ref{}, accepted...), wt.Refs))
				if ok {
					return false, ""
				}
				why = "name:" + y
			}
		}
		return why != "", why
	}
	var tabs [][]Ref
	for _, wt := range cr.Written {
		if wt.Bad != "" {
			return true, "bad:" + wt.Bad
		}
		tabs = append(tabs, wt.Refs)
		if !w.Spec.Cfg.ExactLog {
			for _, l := range wt.Logs {
				if !l.Del && strings.Contains(strings.TrimSuffix(l.Msg, "\n"), "\n") {
					return true, "multiline-message"
				}
			}
		}
	}
	if !w.Spec.Cfg.SkipNameCheck && against != nil {
		if ok, why := LegalTxn(against, tabs); !ok {
			return true, "name:" + why
		}
	}
	return false, ""
}

func (w *World) runOp(t *simrt.Task, op *OpSpec, retry bool) *CallRec {
	hs := w.handle(op.H, t.ID)
	cr := &CallRec{Task: t.ID, Handle: op.H, Kind: op.Kind, Spec: op, Retry: retry}
	t.OpIndex++
	cr.Op = t.OpIndex
	if op.Kind == OpRmLock {
		t.Quiet(func() { w.operatorRemovesStaleLock() })
		return nil
	}
	needOpen := op.Kind != OpOpen
	if needOpen && !hs.Open {
		return nil // handle not usable (never opened, closed, or open failed)
	}
	if op.Kind == OpOpen && hs.Open {
		return nil
	}
	w.Calls = append(w.Calls, cr)
	w.curCall[t.ID] = cr
	cr.InvSeq = w.Sim.EventCount()
	cr.tfBefore = w.Sim.TimeFaultEvents
	cr.LatestAtStart = w.Latest().N
	cr.HandleVerAtStart = hs.Version
	cr.SelfStaleAtStart = hs.SelfStale
	var before dirSnap
	t.Quiet(func() {
		if hs.Open && op.Kind != OpOpen {
			cr.AttemptsBefore = hs.St.Stats.Attempts
			cr.FailuresBefore = hs.St.Stats.Failures
			cr.StaleAtStart = !equalStrings(reftable.SimNames(hs.St), w.Latest().Names)
			if cr.StaleAtStart {
				w.probe("op-through-stale-handle")
				w.probe("stale-" + op.Kind)
			}
		}
		if w.Sequential {
			before = w.snapDir()
		}
	})
	finished := false
	defer func() {
		// reached on normal return, on library panic and on kill (Goexit).
		if finished {
			return
		}
		if t.Killed {
			cr.Class = "killed"
			cr.RetSeq = w.Sim.EventCount()
			delete(w.curCall, t.ID)
			return
		}
		if r := recover(); r != nil {
			cr.Class = "panic"
			cr.Panic = fmt.Sprintf("%v\n%s", r, debug.Stack())
			cr.RetSeq = w.Sim.EventCount()
			cr.Done = true
			t.Quiet(func() { w.afterOp(t, hs, cr, before) })
			delete(w.curCall, t.ID)
		}
	}()
	cr.Err = w.invoke(t, hs, op, cr)
	cr.Class = errClass(cr.Err)
	cr.RetSeq = w.Sim.EventCount()
	cr.Done = true
	finished = true
	t.Quiet(func() { w.afterOp(t, hs, cr, before) })
	delete(w.curCall, t.ID)
	// C09: a failed Add through a stale handle has refreshed the handle;
	// the immediate retry (no interference: sequential histories only)
	// succeeds and commits.
	if w.Sequential && !retry && op.Kind == OpAdd && cr.StaleAtStart && cr.Class == "lockfail" && !w.Sim.Stop && !w.lockHeldByOpenAddition() {
		w.probe("c09-retry")
		rr := w.runOp(t, op, true)
		if rr != nil {
			t.Quiet(func() { w.checkRetry(hs, cr, rr) })
		}
	}
	return cr
}

func (w *World) invoke(t *simrt.Task, hs *HandleState, op *OpSpec, cr *CallRec) error {
	switch op.Kind {
	case OpOpen:
		st, err := reftable.NewStack(DBDir, w.Cfg)
		if err != nil {
			return err
		}
		hs.St, hs.Open, hs.Auto, hs.Version, hs.Task, hs.Broken = st, true, op.Auto, -1, t.ID, false
		reftable.SimSetAutoCompact(st, op.Auto)
		return nil
	case OpClose:
		if hs.Tr != nil {
			hs.Tr.Close()
			hs.Tr, hs.TrOp, hs.TrWritten = nil, 0, nil
		}
		hs.St.Close()
		hs.Open = false
		return nil
	case OpReopen:
		if hs.Tr != nil {
			hs.Tr.Close()
			hs.Tr, hs.TrOp, hs.TrWritten = nil, 0, nil
		}
		hs.St.Close()
		hs.Open = false
		st, err := reftable.NewStack(DBDir, w.Cfg)
		if err != nil {
			return err
		}
		hs.St, hs.Open, hs.Auto, hs.Version, hs.Broken = st, true, op.Auto, -1, false
		reftable.SimSetAutoCompact(st, op.Auto)
		return nil
	case OpSetAuto:
		hs.Auto = op.Auto
		reftable.SimSetAutoCompact(hs.St, op.Auto)
		return nil
	case OpAdd:
		if len(op.Txns) == 0 {
			return nil
		}
		st := hs.St
		return st.Add(w.writeFn(t, cr, &op.Txns[0], func() uint64 { return st.NextUpdateIndex() }))
	case OpBegin:
		if hs.Tr != nil {
			return nil
		}
		tr, err := hs.St.NewAddition()
		if err != nil {
			return err
		}
		hs.Tr, hs.TrOp, hs.TrWritten = tr, cr.Op, nil
		next := hs.St.NextUpdateIndex()
		var firstErr error
		for i := range op.Txns {
			base := next
			span := op.Txns[i].Span
			if span < 1 {
				span = 1
			}
			nBefore := len(cr.Written)
			err := tr.Add(w.writeFn(t, cr, &op.Txns[i], func() uint64 { return base }))
			if n := len(cr.Written); n > nBefore && !cr.Written[n-1].Empty && err == nil {
				next = base + op.Txns[i].Jump + uint64(span)
			}
			if err != nil {
				// a refused table poisons nothing: the Addition stays open,
				// the caller may add further tables and commit, as the API allows
				// (the closure has not run at all when creating the temporary file failed)
				if n := len(cr.Written); n > nBefore {
					cr.Written[n-1].Rejected = true
				}
				if firstErr == nil {
					firstErr = err
				}
			}
		}
		hs.TrWritten = append([]WrittenTable(nil), cr.Written...)
		return firstErr
	case OpCommit, OpAbort:
		if hs.Tr == nil {
			return nil
		}
		tr := hs.Tr
		cr.Written = append(cr.Written, hs.TrWritten...)
		defer func() { hs.Tr, hs.TrOp, hs.TrWritten = nil, 0, nil }()
		defer tr.Close()
		if op.Kind == OpCommit {
			return tr.Commit()
		}
		cr.Written = nil
		return nil
	case OpAddMulti:
		tr, err := hs.St.NewAddition()
		if err != nil {
			return err
		}
		defer tr.Close()
		// the handle is current (NewAddition checked it under the lock);
		// every table of the transaction starts above the previous one.
		next := hs.St.NextUpdateIndex()
		for i := range op.Txns {
			base := next
			span := op.Txns[i].Span
			if span < 1 {
				span = 1
			}
			if err := tr.Add(w.writeFn(t, cr, &op.Txns[i], func() uint64 { return base })); err != nil {
				return err
			}
			if n := len(cr.Written); n > 0 && !cr.Written[n-1].Empty {
				next = base + op.Txns[i].Jump + uint64(span)
			}
		}
		return tr.Commit()
	case OpCompactAll:
		return hs.St.CompactAll(nil)
	case OpExpire:
		if len(reftable.SimNames(hs.St)) == 0 {
			return nil // outside the property's domain (DESIGN §6 C13)
		}
		e := op.Exp
		return hs.St.CompactAll(&reftable.LogExpirationConfig{Time: e.Time, MinUpdateIndex: e.Min, MaxUpdateIndex: e.Max})
	case OpAutoCompact:
		return hs.St.AutoCompact()
	case OpCompactRange:
		n := len(reftable.SimNames(hs.St))
		if n == 0 {
			return nil
		}
		first, last := op.First%n, op.Last%n
		if first > last {
			first, last = last, first
		}
		_, err := reftable.SimCompactRange(hs.St, first, last)
		return err
	case OpClean:
		return hs.St.Clean()
	case OpUpToDate:
		_, err := hs.St.UpToDate()
		return err
	case OpRead:
		return w.readOp(t, hs, op, cr)
	}
	panic("unknown op " + op.Kind)
}

// readOp: full scans through the handle's merged view with the ReadAt
// calls as scheduling points.
func (w *World) readOp(t *simrt.Task, hs *HandleState, op *OpSpec, cr *CallRec) error {
	var names []string
	t.Quiet(func() { names = reftable.SimNames(hs.St) })
	refs, logs, err := ScanTable(hs.St.Merged())
	t.Quiet(func() {
		w.probe("read-op")
		if err != nil && cr.IOFaulted {
			w.probe("read-failed-under-io-fault")
			return
		}
		if err != nil {
			w.violate(w.concProp("C10"), "read-failed", "readop", fmt.Sprintf("scan through handle %d (tables %v) failed: %v", hs.Idx, names, err))
			return
		}
		v := w.versionOfNames(names, hs.Version)
		if v == nil {
			return // reported by the handle-view check
		}
		if v.View == nil {
			return
		}
		got := StateOf(refs, logs)
		if d := v.View.Diff(got); d != "" {
			prop := "C10"
			if w.Sequential {
				prop = "C03"
			}
			w.violate(prop, "wrong-data", "readop", fmt.Sprintf("handle %d at version %d: %s", hs.Idx, v.N, d))
		}
	})
	return nil
}

// versionOfNames finds the latest recorded version with exactly these
// names; among several (only the empty list can repeat) the latest.
func (w *World) versionOfNames(names []string, atLeast int) *Version {
	for i := len(w.Versions) - 1; i >= 0; i-- {
		if equalStrings(w.Versions[i].Names, names) {
			return w.Versions[i]
		}
	}
	return nil
}

type dirSnap struct {
	Entries []string // "name:ino:gen"
	List    string
	OK      bool
}

func (w *World) snapDir() dirSnap {
	es, err := w.Sim.FS.ReadDir(DBDir)
	if err != nil {
		return dirSnap{}
	}
	var s dirSnap
	for _, e := range es {
		fi, _ := w.Sim.FS.Stat(filepath.Join(DBDir, e.Name))
		s.Entries = append(s.Entries, fmt.Sprintf("%s:%d:%d", e.Name, fi.Ino, fi.Gen))
	}
	b, _ := w.Sim.FS.ReadFile(listPath())
	s.List = string(b)
	s.OK = true
	return s
}

func (s dirSnap) diff(o dirSnap) string {
	if s.List != o.List {
		return fmt.Sprintf("tables.list %q -> %q", s.List, o.List)
	}
	return diffLists(s.Entries, o.Entries)
}

// afterOp runs the per-call monitors (observer mode).
func (w *World) afterOp(t *simrt.Task, hs *HandleState, cr *CallRec, before dirSnap) {
	w.noteState()
	cr.TimeFaulted = w.Sim.TimeFaultEvents > cr.tfBefore
	if cr.TimeFaulted {
		w.probe("call-under-time-fault")
		if cr.Class == "error" {
			w.probe("call-failed-under-time-fault")
		}
	}
	if cr.IOFaulted {
		w.probe("call-under-io-fault")
		w.probe("call-under-io-fault/" + cr.Kind + ":" + cr.Class)
	}
	latest := w.Latest()
	isAdd := cr.Kind == OpAdd || cr.Kind == OpAddMulti || cr.Kind == OpCommit
	if cr.IOFaulted && cr.ListChanges > 0 && cr.Class != "ok" {
		hs.SelfStale = true
	} else if hs.Open && cr.Class != "panic" && equalStrings(reftable.SimNames(hs.St), latest.Names) {
		hs.SelfStale = false
	}

	// ---- panics
	if cr.Class == "panic" {
		prop := "C04"
		if cr.Kind == OpClean || cr.Kind == OpClose {
			prop = "C16"
		}
		if cr.Kind == OpRead {
			prop = w.concProp("C03")
		}
		first := strings.SplitN(cr.Panic, "\n", 2)[0]
		w.violate(prop, "panic", cr.Kind+"/"+panicSite(cr.Panic), fmt.Sprintf("%s panicked: %s", cr.Kind, first))
		hs.Open = false
	}

	// ---- ack <=> commit (C04)
	if isAdd && cr.Class != "panic" {
		nonEmpty := 0
		for _, wt := range cr.Written {
			if !wt.Empty && !wt.Rejected {
				nonEmpty++
			}
		}
		switch {
		case cr.Class == "ok" && nonEmpty > 0 && cr.Appends == 0:
			w.violate("C04", "ack-mismatch", "ok-without-commit/"+cr.Kind, fmt.Sprintf("%s returned success but no commit of its %d table(s) happened", cr.Kind, nonEmpty))
		case cr.Class != "ok" && cr.Appends > 0 && cr.IOFaulted:
			// the call that met the injected error after its commit point:
			// the outcome is reported as failed although it is durable
			w.probe("io-fault-error-after-commit")
		case cr.Class != "ok" && cr.Appends > 0 && !cr.TimeFaulted:
			w.violate("C04", "ack-mismatch", "error-after-commit/"+cr.Kind+"/"+errSite(cr.Err), fmt.Sprintf("%s returned %q although its transaction was committed", cr.Kind, cr.Err))
		case cr.Class == "ok" && nonEmpty == 0 && cr.Appends > 0:
			w.violate("C04", "ack-mismatch", "empty-created-table/"+cr.Kind, "a transaction without records created a table")
		}
	}

	// ---- unexplained failure (C04) / refused legal transaction (C12)
	if cr.Class == "error" || cr.Class == "lockfail" {
		justified := false
		why := ""
		if cr.Class == "lockfail" {
			if cr.SawLockEEXIST {
				justified, why = true, "contention"
			} else if w.staleByOthers(hs, cr) {
				justified, why = true, "stale"
			} else if cr.SelfStaleAtStart {
				// knock-on of an injected error: the previous call through
				// this handle committed and could not refresh the handle
				justified, why = true, "stale-after-io-fault"
				w.probe("lockfail-after-io-fault")
			}
		}
		if !justified && (isAdd || cr.Kind == OpBegin) && cr.Appends == 0 {
			// judged against the committed state the call ran under
			against := latest.Model
			if latest.View != nil {
				against = latest.View
			}
			if rej, r := w.predictedRejection(cr, against); rej {
				justified, why = true, r
				w.probe("rejected-" + strings.SplitN(r, ":", 2)[0])
			}
		}
		if !justified && cr.IOFaulted && (cr.Class == "error" || cr.Kind == OpBegin) {
			// the call that met an injected I/O error may report failure;
			// everything it left behind is still judged.
			justified, why = true, "io-fault"
		}
		if !justified && cr.TimeFaulted && cr.Class == "error" {
			// Oracle relaxation under faults, deliberate and narrow: a
			// call that was itself slowed down or saw the clock jump may
			// report failure (reload deadline); it must still never
			// return wrong data - every other monitor stays on.
			justified = true
		}
		if !justified {
			msg := ""
			if cr.Err != nil {
				msg = cr.Err.Error()
			}
			if (isAdd || cr.Kind == OpBegin) && cr.Class == "error" && !w.Spec.Cfg.SkipNameCheck && (strings.Contains(msg, "existing ref") || strings.Contains(msg, "invalid name")) {
				w.violate("C12", "name-conflict", "rejected-legal/"+cr.Kind, fmt.Sprintf("legal transaction refused: %v", cr.Err))
			} else if !(cr.Appends > 0) { // error-after-commit is already reported as ack-mismatch
				w.violate("C04", "unexplained-failure", cr.Kind+"/"+cr.Class+"/"+errSite(cr.Err), fmt.Sprintf("%s through handle %d failed with %q; no lock contention, no staleness caused by others, no content rejection", cr.Kind, hs.Idx, msg))
			}
		} else {
			_ = why
		}
	}
	// accepted although the statement predicts rejection (writer domain)
	if isAdd && cr.Class == "ok" && cr.Appends > 0 {
		for _, wt := range cr.Written {
			if wt.Bad != "" && !wt.Rejected && !wt.Empty {
				w.violate("C04", "accepted-bad", wt.Bad, "a transaction that must be rejected was committed")
			}
		}
	}

	// ---- residue at idle (C16)
	if cr.Class != "killed" {
		var left []string
		for p, o := range w.owner {
			if o.Task != t.ID {
				continue
			}
			c := pathClassOf(p)
			if c == "listlock" && o.Handle >= 0 && o.Handle < len(w.Handles) && w.Handles[o.Handle].Tr != nil && w.Handles[o.Handle].TrOp == o.Op {
				continue // the lock of an Addition that is still open: the handle is not idle
			}
			if c == "listlock" || c == "tablelock" || c == "temp" {
				if w.excused[p] {
					continue
				}
				if _, err := w.Sim.FS.Stat(p); err == nil {
					left = append(left, c)
				}
			}
		}
		if len(left) > 0 {
			sort.Strings(left)
			w.violate("C16", "residue-idle", cr.Kind+"/"+cr.Class+"/"+strings.Join(uniq(left), "+"), fmt.Sprintf("after %s (%s) task %d still owns %v", cr.Kind, cr.Class, t.ID, left))
		}
	}

	// ---- handle view (C10 / C03)
	// In "sparse observation" runs (a third of the concurrent runs, from the
	// run seed) the view is read only after operations that are reads
	// themselves: reading through a handle after every call keeps every
	// table of its view opened and touched, which hides defects that need
	// a table to go unread between a reload and its deletion by another
	// process (lazily opened readers, caches filled on first use).
	if hs.Open && cr.Class != "panic" && (!w.sparseObserve() || cr.Kind == OpRead) {
		w.checkHandleView(hs, cr)
	}

	if w.DeepReads && hs.Open && cr.Class != "panic" && !w.Sim.Stop {
		w.deepReadCheck(hs, cr)
	}

	if w.Porcupine && (cr.Kind == OpOpen || cr.Kind == OpReopen) && cr.Class == "ok" && hs.Open && hs.St.Merged() != nil {
		if refs, logs, err := ScanTable(hs.St.Merged()); err == nil {
			cr.OpenDigest = StateOf(refs, logs).Digest()
		}
	}
	// ---- fresh open (C04)
	if (cr.Kind == OpOpen || cr.Kind == OpReopen) && cr.Class == "ok" && hs.Open {
		if hs.Version >= 0 && hs.Version < cr.LatestAtStart {
			w.violate("C04", "fresh-open", cr.Kind, fmt.Sprintf("NewStack returned version %d although version %d was committed before it was called", hs.Version, cr.LatestAtStart))
		}
	}
	if (cr.Kind == OpOpen || cr.Kind == OpReopen) && cr.Class == "error" && !cr.TimeFaulted && !cr.IOFaulted {
		// opening a directory whose list is healthy must succeed
		w.violate("C05", "open-fails", "newstack/"+errSite(cr.Err), fmt.Sprintf("NewStack failed: %v", cr.Err))
	}

	// ---- stale handle (C09), sequential histories only
	if w.Sequential && cr.StaleAtStart && before.OK && cr.Class != "panic" && !cr.IOFaulted {
		w.checkStaleOp(hs, cr, before)
	}
	// C13: an expiry compaction through a current handle, undisturbed, has
	// removed exactly the expired entries when it returns success - also
	// when it decided that there was nothing to rewrite.
	if w.Sequential && cr.Kind == OpExpire && cr.Class == "ok" && hs.Open && !cr.IOFaulted && !cr.StaleAtStart && !cr.SawLockEEXIST && cr.Spec.Exp != nil && cr.LatestAtStart < len(w.Versions) {
		start := w.Versions[cr.LatestAtStart]
		if start.View != nil && len(start.Names) > 0 && w.Latest().View != nil {
			want := start.View.Clone()
			want.Expire(cr.Spec.Exp)
			if d := want.Diff(w.Latest().View); d != "" {
				w.violate("C13", "expiry-not-applied", fmt.Sprintf("list-changes=%d", cr.ListChanges), fmt.Sprintf("CompactAll(%+v) returned success but the committed state is not the expired one: %s", *cr.Spec.Exp, d))
			}
			w.probe("c13-judged-at-return")
		}
	}
	// C17: the automatic compaction that follows Add is attempted exactly
	// when two adjacent tables share a size class - judged on the stack as
	// this very Add left it, and only when nobody interfered.
	if cr.Kind == OpAdd && cr.Class == "ok" && hs.Open && hs.Auto && cr.Appends == 1 && !cr.SawLockEEXIST && !cr.TimeFaulted && !cr.IOFaulted && !cr.StaleAtStart && cr.AppendVersion > 0 {
		foreign := false
		for _, v := range w.Versions[cr.AppendVersion:] {
			if v.Task != cr.Task || v.Op != cr.Op {
				foreign = true
			}
		}
		if !foreign {
			v := w.Versions[cr.AppendVersion]
			var sizes []int
			for _, tc := range v.Tables {
				sizes = append(sizes, tc.Bytes)
			}
			if adj, ok := sizeClasses(sizes, w.Spec.Cfg.Hash); ok {
				attempted := hs.St.Stats.Attempts > cr.AttemptsBefore
				w.probe("c17-judged-add-decision")
				if attempted != adj {
					w.violate("C17", "nothing-to-do-iff", fmt.Sprintf("after-add/attempted=%v", attempted), fmt.Sprintf("after Add, file sizes %v: two adjacent tables share a size class = %v, but a compaction was attempted = %v", sizes, adj, attempted))
				}
			}
		}
	}
	// C17: an auto-compaction that runs strictly reduces the number of tables
	if w.Sequential && cr.Kind == OpAutoCompact && !cr.StaleAtStart && !cr.IOFaulted && cr.Class == "ok" && hs.Open &&
		hs.St.Stats.Attempts > cr.AttemptsBefore && hs.St.Stats.Failures == cr.FailuresBefore && cr.ListChanges == 0 {
		w.violate("C17", "no-progress", "autocompact", "auto-compaction ran (attempted, no failure reported) but tables.list is unchanged")
	}
	// C17: "nothing to do" exactly when no two adjacent tables share a size class
	if w.Sequential && cr.Kind == OpAutoCompact && !cr.StaleAtStart && !cr.IOFaulted && cr.Class == "ok" && hs.Open && cr.LatestAtStart < len(w.Versions) {
		v := w.Versions[cr.LatestAtStart]
		var sizes []int
		for _, tc := range v.Tables {
			sizes = append(sizes, tc.Bytes)
		}
		if adj, ok := sizeClasses(sizes, w.Spec.Cfg.Hash); ok {
			attempted := hs.St.Stats.Attempts > cr.AttemptsBefore
			w.probe("c17-judged-decision")
			if attempted != adj {
				w.violate("C17", "nothing-to-do-iff", fmt.Sprintf("attempted=%v", attempted), fmt.Sprintf("file sizes %v: two adjacent tables share a size class = %v, but a compaction was attempted = %v", sizes, adj, attempted))
			}
		} else {
			w.probe("c17-ambiguous-size-vector")
		}
	}
	// Clean succeeds whenever the list lock is free and the handle is current (C16)
	if cr.Kind == OpClean && cr.Class != "ok" && cr.Class != "panic" && !cr.StaleAtStart && !cr.SawLockEEXIST && !cr.TimeFaulted && !cr.IOFaulted && !w.staleByOthers(hs, cr) {
		w.violate("C16", "clean-failed", cr.Class+"/"+errSite(cr.Err), fmt.Sprintf("Clean through a current handle with the lock free failed: %v", cr.Err))
	}
}

func uniq(ss []string) []string {
	var out []string
	for i, s := range ss {
		if i == 0 || ss[i-1] != s {
			out = append(out, s)
		}
	}
	return out
}

// errSite is a stable short form of an error for signatures: its text with
// digits, hex strings and paths removed.
func errSite(err error) string {
	if err == nil {
		return "nil"
	}
	s := err.Error()
	var b strings.Builder
	for _, f := range strings.Fields(s) {
		if strings.ContainsAny(f, "/\\") || strings.HasPrefix(f, "0x") {
			f = "P"
		}
		b.WriteString(strings.Map(func(r rune) rune {
			if r >= '0' && r <= '9' {
				return -1
			}
			return r
		}, f))
		b.WriteByte('_')
		if b.Len() > 60 {
			break
		}
	}
	return strings.Trim(b.String(), "_")
}

// panicSite extracts the innermost reftable function of a panic stack.
func panicSite(stack string) string {
	for _, l := range strings.Split(stack, "\n") {
		if i := strings.Index(l, "verifsim/reftable."); i >= 0 && !strings.Contains(l, ".Sim") {
			fn := l[i+len("verifsim/reftable."):]
			if j := strings.LastIndex(fn, "("); j > 0 && !strings.HasPrefix(fn, "(") {
				fn = fn[:j]
			} else if j := strings.LastIndex(fn, "("); j > 0 {
				fn = fn[:j]
			}
			return fn
		}
	}
	return "?"
}

// staleByOthers: some other handle changed tables.list after this
// handle's last refresh.
func (w *World) staleByOthers(hs *HandleState, cr *CallRec) bool {
	from := cr.HandleVerAtStart
	for _, v := range w.Versions {
		if v.N > from && v.Handle != hs.Idx {
			return true
		}
	}
	return false
}

// checkHandleView: after every completed call the handle's names equal one
// recorded version, its scan equals that version's state, the version
// index never decreases and reads succeed.
func (w *World) checkHandleView(hs *HandleState, cr *CallRec) {
	names := reftable.SimNames(hs.St)
	prop := "C10"
	v := w.versionOfNames(names, hs.Version)
	if v == nil {
		w.violate(prop, "handle-view", "no-such-version/"+cr.Kind, fmt.Sprintf("after %s (%s) handle %d holds %v which was never the content of tables.list", cr.Kind, cr.Class, hs.Idx, names))
		return
	}
	if hs.Version >= 0 && v.N < hs.Version {
		// also for an empty view: versionOfNames returns the LATEST version
		// with these names, so an empty list committed after the handle's
		// version would have been found
		w.violate(prop, "handle-view", "went-back/"+cr.Kind, fmt.Sprintf("handle %d moved from version %d back to %d (%d tables)", hs.Idx, hs.Version, v.N, len(names)))
	}
	hs.Version = v.N
	if hs.St.Merged() == nil {
		w.violate(prop, "handle-view", "nil-merged/"+cr.Kind, "handle has no merged view")
		return
	}
	refs, logs, err := ScanTable(hs.St.Merged())
	if err != nil {
		w.violate(prop, "read-failed", cr.Kind+"/"+cr.Class+"/"+errSite(err), fmt.Sprintf("after %s (%s) reading through handle %d (tables %v) fails: %v", cr.Kind, cr.Class, hs.Idx, names, err))
		return
	}
	if v.View == nil {
		return
	}
	got := StateOf(refs, logs)
	if d := v.View.Diff(got); d != "" {
		if w.Sequential {
			prop = "C03"
			if cr.Kind == OpAdd && cr.Class == "lockfail" {
				// C09: "after a failed Add the handle has been refreshed to
				// the current list" - the names are current (checked above),
				// what is read through them is not
				w.violate("C09", "not-refreshed", "view/"+cr.Kind, fmt.Sprintf("after a failed Add handle %d shows version %d's tables but not their state: %s", hs.Idx, v.N, d))
			}
			if cr.Replaces > 0 {
				// the compacting handle's view changed across its own compaction
				w.violate("C07", "compaction-changed-view", "handle-scan/"+cr.Kind, fmt.Sprintf("handle %d after its compaction (version %d): %s", hs.Idx, v.N, d))
			}
		}
		w.violate(prop, "wrong-data", "handle-scan/"+cr.Kind, fmt.Sprintf("handle %d at version %d: %s", hs.Idx, v.N, d))
		return
	}
	// strictly increasing keys, each once (C03 b) — the scan itself
	for i := 1; i < len(refs); i++ {
		if refs[i-1].Name >= refs[i].Name {
			w.violate(w.concProp("C03"), "order", "refs", fmt.Sprintf("merged ref scan not strictly increasing at %q, %q", refs[i-1].Name, refs[i].Name))
			break
		}
	}
	for i := 1; i < len(logs); i++ {
		if !logLess(logs[i-1], logs[i]) {
			w.violate(w.concProp("C03"), "order", "logs", fmt.Sprintf("merged log scan not strictly increasing at %v, %v", logs[i-1], logs[i]))
			break
		}
	}
	if w.ModelOK && v.Model != nil {
		if d := v.Model.Diff(got); d != "" {
			w.violate(w.concProp("C03"), "wrong-data", "handle-vs-model/"+cr.Kind, fmt.Sprintf("handle %d at version %d differs from the model: %s", hs.Idx, v.N, d))
		}
	}
}

// checkStaleOp (C09): a write attempted through a stale handle never
// commits and leaves the directory unchanged; a failed Add refreshes.
func (w *World) checkStaleOp(hs *HandleState, cr *CallRec, before dirSnap) {
	switch cr.Kind {
	case OpAdd, OpAddMulti, OpBegin:
		if cr.Class != "lockfail" {
			// an empty transaction may legitimately succeed? NewAddition
			// itself must fail on a stale handle.
			w.violate("C09", "stale-write", "not-lockfail/"+cr.Kind+"/"+cr.Class, fmt.Sprintf("%s through a stale handle returned %v instead of ErrLockFailure", cr.Kind, cr.Err))
		}
	case OpCompactAll, OpExpire, OpAutoCompact, OpCompactRange, OpClean:
	default:
		return
	}
	if cr.Appends+cr.Replaces > 0 {
		w.violate("C09", "stale-write", "committed/"+cr.Kind, fmt.Sprintf("%s through a stale handle changed tables.list", cr.Kind))
	}
	after := w.snapDir()
	if w.Crashes == 0 {
		if d := before.diff(after); d != "" {
			w.violate("C09", "stale-write", "directory-changed/"+cr.Kind, fmt.Sprintf("%s through a stale handle changed the directory: %s", cr.Kind, d))
		}
	}
	if cr.Kind == OpAdd && cr.Class == "lockfail" && hs.Open {
		ok, err := hs.St.UpToDate()
		if err != nil || !ok {
			w.violate("C09", "not-refreshed", "uptodate", fmt.Sprintf("after a failed Add UpToDate() = %v, %v", ok, err))
		}
		var max uint64
		for _, tc := range w.Latest().Tables {
			if tc.Err == nil && tc.Info.Max > max {
				max = tc.Info.Max
			}
		}
		if n := hs.St.NextUpdateIndex(); n <= max {
			w.violate("C09", "not-refreshed", "next-update-index", fmt.Sprintf("after a failed Add NextUpdateIndex() = %d, committed tables reach %d", n, max))
		}
	}
}

func (w *World) checkRetry(hs *HandleState, first, retry *CallRec) {
	against := w.Versions[retry.LatestAtStart]
	st := against.Model
	if against.View != nil {
		st = against.View
	}
	rej, _ := w.predictedRejection(retry, st)
	if rej {
		return
	}
	nonEmpty := 0
	for _, wt := range retry.Written {
		if !wt.Empty {
			nonEmpty++
		}
	}
	if retry.Class != "ok" {
		w.violate("C09", "retry-failed", retry.Class+"/"+errSite(retry.Err), fmt.Sprintf("immediate retry after a refreshed failed Add returned %v", retry.Err))
		return
	}
	if nonEmpty > 0 && retry.Appends == 0 {
		w.violate("C09", "retry-failed", "no-commit", "immediate retry returned success without committing")
	}
}

// operatorRemovesStaleLock: tables.list.lock left behind by a process that
// has crashed is removed by hand (outside the library: no event, no lock
// tenure to judge).
func (w *World) operatorRemovesStaleLock() {
	p := filepath.Join(DBDir, "tables.list.lock")
	o, has := w.owner[p]
	if !has || o.Task < 0 || o.Task >= len(w.Sim.Tasks) || !w.Sim.Tasks[o.Task].Crashed {
		return
	}
	if _, err := w.Sim.FS.Stat(p); err != nil {
		return
	}
	if w.Sim.FS.Remove(p) == nil {
		delete(w.owner, p)
		w.probe("operator-removed-stale-lock")
	}
}

// lockHeldByOpenAddition: some handle sits between begin and commit/abort.
func (w *World) lockHeldByOpenAddition() bool {
	for _, hs := range w.Handles {
		if hs.Tr != nil {
			return true
		}
	}
	return false
}

func hasMultiline(logs []Log) bool {
	for _, l := range logs {
		if !l.Del && strings.Contains(strings.TrimSuffix(l.Msg, "\n"), "\n") {
			return true
		}
	}
	return false
}
