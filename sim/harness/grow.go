package harness

import (
	"encoding/json"
	"fmt"
	"math"
	"path/filepath"
	"strings"

	"verifsim/reftable"
	"verifsim/simrt"
)

// S-GROW (C17): one writer, N transactions each producing a table of the
// same byte size. After every Add: depth <= 2*log2(N); at the end
// Stats.EntriesWritten <= N*log2(N)*entriesPerTxn. Also, for every
// auto-compaction decision: a compaction is attempted iff two adjacent
// tables share a power-of-two size class (judged from the file sizes on
// the simulated disk, only when the whole-file and the payload reading of
// "size" classify every table identically).

type GrowSpec struct {
	N          int    `json:"n"`
	RefsPerTxn int    `json:"refs_per_txn"`
	NameLen    int    `json:"name_len"`
	Kind       int    `json:"kind"`    // RefVal / RefPeeled / RefSym
	Rewrite    bool   `json:"rewrite"` // same names in every transaction
	WithLog    bool   `json:"with_log"`
	Target     string `json:"target,omitempty"`
}

func GenGrow(prop string, seed uint64, maxN int) *RunSpec {
	r := simrt.NewRng(seed, "workload")
	p := &Profile{}
	cfg := GenCfg(simrt.NewRng(seed, "config"), p)
	cfg.SkipNameCheck = r.Bool(0.5)
	g := GrowSpec{N: 64 + r.Intn(maxN-63), RefsPerTxn: 1 + r.Intn(4), NameLen: 8 + r.Intn(24), Kind: r.Pick(RefVal, RefVal, RefPeeled, RefSym, RefDel), Rewrite: r.Bool(0.3), WithLog: r.Bool(0.2)}
	if r.Bool(0.3) {
		g.N = 1 << (6 + r.Intn(int(math.Log2(float64(maxN)))-5))
		if r.Bool(0.5) {
			g.N--
		}
	}
	if g.Kind == RefSym {
		g.Target = "refs/heads/" + strings.Repeat("t", 1+r.Intn(20))
	}
	b, _ := json.Marshal(g)
	raw := json.RawMessage(b)
	return &RunSpec{Property: prop, Scenario: "S-GROW", Seed: seed, Cfg: cfg, Sched: SchedSpec{Mode: "sequential"}, Extra: &raw, NoFinal: true}
}

func log2floor(x uint64) int {
	l := -1
	for x > 0 {
		l++
		x >>= 1
	}
	return l
}

// sizeClasses decides whether two adjacent tables share a power-of-two
// size class. The statement does not say which byte count is "the size" of
// a table, so every reading "file size minus a constant per-table overhead
// c", 0 <= c <= header+footer, is considered; ok=false (ambiguous, not
// judged) unless all of them give the same answer for every adjacent pair.
func sizeClasses(fileSizes []int, hash string) (adjacentSame bool, ok bool) {
	hdr, ftr := 24, 68
	if hash == "s256" {
		hdr, ftr = 28, 72
	}
	for i := 1; i < len(fileSizes); i++ {
		var first bool
		for c := 0; c <= hdr+ftr; c++ {
			a, b := fileSizes[i-1]-c, fileSizes[i]-c
			if a < 0 {
				a = 0
			}
			if b < 0 {
				b = 0
			}
			same := log2floor(uint64(a)) == log2floor(uint64(b))
			if c == 0 {
				first = same
			} else if same != first {
				return false, false
			}
		}
		if first {
			adjacentSame = true
		}
	}
	return adjacentSame, true
}

func ExecuteGrow(spec *RunSpec, opts RunOpts) *RunResult {
	var g GrowSpec
	if spec.Extra == nil || json.Unmarshal(*spec.Extra, &g) != nil {
		panic("S-GROW spec without payload")
	}
	fs := simrt.NewMemFS()
	sim := simrt.NewSim(spec.Seed, fs)
	sim.MaxSteps = 1 << 30
	sim.KeepLog = false
	simrt.G = sim
	defer func() { simrt.G = nil }()
	w := NewWorld(spec, sim)
	w.StopOn = opts.StopOn
	sim.OnEvent = nil // no observer: only the size/depth rules are judged here
	hs := spec.Cfg.HashSize()
	bound := 2 * math.Log2(float64(g.N))
	maxDepth := 0
	maxDepthPrefix := 0.0
	var firstSize int
	sameSize := true
	ambiguous, judged := 0, 0
	listNames := func() []string {
		b, err := fs.ReadFile(listPath())
		if err != nil {
			return nil
		}
		return parseList(b)
	}
	sizesOf := func(names []string) []int {
		var out []int
		for _, n := range names {
			fi, err := fs.Stat(filepath.Join(DBDir, n))
			if err != nil {
				out = append(out, 0)
			} else {
				out = append(out, int(fi.Size))
			}
		}
		return out
	}
	task := sim.NewTask("writer", func(t *simrt.Task) {
		fs.MkdirAll(DBDir)
		st, err := reftable.NewStack(DBDir, w.Cfg)
		if err != nil {
			w.violate("C17", "grow-error", "open", err.Error())
			return
		}
		reftable.SimSetAutoCompact(st, false)
		for i := 0; i < g.N && !sim.Stop; i++ {
			var appended string
			err := st.Add(func(wr *reftable.Writer) error {
				idx := st.NextUpdateIndex()
				wr.SetLimits(idx, idx)
				for k := 0; k < g.RefsPerTxn; k++ {
					serial := i
					if g.Rewrite {
						serial = 0
					}
					name := fmt.Sprintf("refs/heads/%0*d-%d", g.NameLen, serial, k)
					rec := reftable.RefRecord{RefName: name, UpdateIndex: idx}
					switch g.Kind {
					case RefVal:
						rec.Value = UniqValue(i, name, "v", hs)
					case RefPeeled:
						rec.Value = UniqValue(i, name, "v", hs)
						rec.TargetValue = UniqValue(i, name, "p", hs)
					case RefSym:
						rec.Target = g.Target
					}
					if err := wr.AddRef(&rec); err != nil {
						return err
					}
				}
				if g.WithLog {
					l := reftable.LogRecord{RefName: fmt.Sprintf("refs/heads/%0*d-0", g.NameLen, 0), UpdateIndex: idx, Name: "n", Email: "e", Time: 100, Message: "m"}
					if err := wr.AddLog(&l); err != nil {
						return err
					}
				}
				return nil
			})
			if err != nil {
				w.violate("C17", "grow-error", "add/"+errSite(err), fmt.Sprintf("Add #%d: %v", i, err))
				return
			}
			names := listNames()
			if len(names) > 0 {
				appended = names[len(names)-1]
				sz := sizesOf([]string{appended})[0]
				if i == 0 {
					firstSize = sz
				} else if sz != firstSize {
					sameSize = false
				}
			}
			// the auto-compaction decision on the stack as it is now
			sizes := sizesOf(names)
			adj, ok := sizeClasses(sizes, spec.Cfg.Hash)
			before := st.Stats.Attempts
			beforeLen := len(names)
			if err := st.AutoCompact(); err != nil {
				w.violate("C17", "grow-error", "autocompact/"+errSite(err), fmt.Sprintf("AutoCompact after Add #%d: %v", i, err))
				return
			}
			attempted := st.Stats.Attempts > before
			after := listNames()
			if !ok {
				ambiguous++
			} else {
				judged++
				if attempted != adj {
					w.violate("C17", "nothing-to-do-iff", fmt.Sprintf("attempted=%v", attempted), fmt.Sprintf("file sizes %v: two adjacent tables share a size class = %v, but a compaction was attempted = %v", sizes, adj, attempted))
					return
				}
			}
			if attempted {
				// valid range and progress
				i0, j0, r0, _ := contiguousReplace(names, after)
				if !(j0-i0 >= 2 && len(r0) <= 1 && len(after) < beforeLen) {
					w.violate("C17", "compaction-shape", "grow", fmt.Sprintf("auto-compaction turned %d tables into %d (replaced [%d,%d) by %d)", beforeLen, len(after), i0, j0, len(r0)))
					return
				}
			}
			depth := len(after)
			if depth > maxDepth {
				maxDepth = depth
			}
			if i >= 1 {
				if d := float64(depth) / (2 * math.Floor(math.Log2(float64(i+1)))); d > maxDepthPrefix {
					maxDepthPrefix = d
				}
			}
			if sameSize && float64(depth) > bound {
				w.violate("C17", "depth-bound", "grow/"+growShape(spec, &g), fmt.Sprintf("after transaction %d of %d the stack is %d tables deep; bound 2*log2(N) = %.1f", i+1, g.N, depth, bound))
				return
			}
		}
		entriesPerTxn := g.RefsPerTxn
		if g.WithLog {
			entriesPerTxn++
		}
		cost := float64(g.N) * math.Log2(float64(g.N)) * float64(entriesPerTxn)
		if sameSize && float64(st.Stats.EntriesWritten) > cost {
			w.violate("C17", "cost-bound", "grow/"+growShape(spec, &g), fmt.Sprintf("N=%d: compaction rewrote %d entries; bound N*log2(N)*entriesPerTxn = %.0f", g.N, st.Stats.EntriesWritten, cost))
		}
		if st.Stats.Failures != 0 {
			w.violate("C17", "grow-error", "failures", fmt.Sprintf("%d compaction failures in a single-writer workload", st.Stats.Failures))
		}
		w.Probes["grow-entries-written"] += int(st.Stats.EntriesWritten)
		closeQuiet(st)
	})
	sim.RunPhase([]*simrt.Task{task}, simrt.Sequential{})
	if task.Panic != nil {
		w.violate("C17", "panic", "grow", fmt.Sprintf("%v", task.Panic))
	}
	sim.KillAll()
	res := &RunResult{Spec: spec, Violations: w.Violations, Probes: w.Probes, Steps: sim.Steps, Events: sim.EventCount(), SimTimeNS: sim.Now,
		LogHash: fmt.Sprintf("%016x", sim.Hash), Counters: sim.Counters, CallCounts: map[string]int{}, World: w, MaxTables: maxDepth}
	res.Probes["grow-judged-decisions"] += judged
	res.Probes["grow-ambiguous-size-vectors"] += ambiguous
	if sameSize {
		res.Probes["grow-same-size-workload"]++
	} else {
		res.Probes["grow-unequal-size-workload"]++
	}
	res.Probes[fmt.Sprintf("grow-maxdepth-%02d", maxDepth)]++
	if maxDepthPrefix > 1 {
		res.Probes["advisory-depth-over-2floorlog2i"]++
	}
	res.CallCounts["add:ok"] = g.N
	res.Interleave = simrt.HashStr(uint64(g.N)<<20|uint64(g.RefsPerTxn)<<8|uint64(g.Kind), fmt.Sprint(g.NameLen, g.Rewrite, g.WithLog, spec.Cfg))
	return res
}

// growShape names the input shape of a workload for finding signatures.
func growShape(spec *RunSpec, g *GrowSpec) string {
	layout := "padded"
	if spec.Cfg.Unaligned {
		layout = "unaligned"
	}
	names := "fresh-names"
	if g.Rewrite {
		names = "rewritten-names"
	}
	logs := "no-logs"
	if g.WithLog {
		logs = "with-logs"
	}
	return layout + "," + names + "," + logs
}
