#!/bin/sh
# Builds the framework from files on disk only (offline).
set -e
cd "$(dirname "$0")/.."
export GOFLAGS=-mod=mod GOPROXY=off GOSUMDB=off GOTOOLCHAIN=local
(cd tools/rewrite && go build -o ../../bin/rewrite .)
echo "setup: rewriter built"
