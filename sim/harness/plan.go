package harness

import (
	"verifsim/simrt"
)

// Part is one scenario of a property's check.
type Part struct {
	Name     string
	Quick    int // runs in the quick tier
	Thorough int // runs in the thorough tier
	Gen      func(seed uint64) *RunSpec
	Opts     RunOpts
	Exec     func(spec *RunSpec, opts RunOpts) *RunResult // nil: ExecuteAny
}

// Plan is how a property is decided.
type Plan struct {
	Prop  string
	Level string
	Parts []Part
	Rule  string
	// Nontrivial decides whether a finished run counts towards
	// distinct_nontrivial (a probe relevant to the property fired).
	Nontrivial       func(r *RunResult) bool
	Assumptions      []string
	MemLimit         uint64 // address-space fence for workers (bytes); 0 = none
	WatchdogS        int    // per-run wall-clock limit in seconds (0: 900)
	DeathIsViolation bool   // a worker dying reproducibly in a run is a violation (C18), not infrastructure
}

func wAll() map[string]int {
	return map[string]int{OpAdd: 10, OpAddMulti: 2, OpCompactAll: 2, OpExpire: 1, OpAutoCompact: 2, OpCompactRange: 2, OpClean: 1, OpRead: 2, OpReopen: 1, OpUpToDate: 1, OpClose: 1, OpSetAuto: 1, OpBegin: 1, OpCommit: 1, OpAbort: 1}
}

func baseProfile() *Profile {
	return &Profile{MinTasks: 2, MaxTasks: 4, MinOps: 2, MaxOps: 6, InitMax: 6, Logs: true, AutoP: 0.5, HandlesPerTask: 3,
		RefsPerTxn: [2]int{0, 3}, LogsPerTxn: [2]int{0, 2}, SkipNameCheckP: 0.3, W: wAll(), MultiSpan: true, DeepInitP: 0.04, IdxJumpP: 0.02}
}

// stormProfile: 3-4 processes compacting short, mostly disjoint ranges of a
// deep stack at the same time (overlapping unlocked windows, list shifts
// below and above a compaction in progress), few Adds.
func stormProfile() *Profile {
	p := baseProfile()
	p.MinTasks, p.MaxTasks = 3, 4
	p.MinOps, p.MaxOps = 2, 5
	p.InitMin, p.InitMax = 6, 14
	p.DeepInitP = 0
	p.AutoP = 0.1
	p.ShortRangesP = 0.85
	p.W = map[string]int{OpCompactRange: 12, OpAdd: 3, OpAutoCompact: 1, OpCompactAll: 1, OpClean: 1, OpRead: 1}
	return p
}

func probeAny(r *RunResult, names ...string) bool {
	for _, n := range names {
		if r.Probes[n] > 0 {
			return true
		}
	}
	return false
}

func concNontrivial(r *RunResult) bool {
	// at least two tasks interleaved inside an operation of one another
	return len(r.Segs) > 2 && r.Versions > 2
}

func turnPart(prop, name string, q, t int, p *Profile, opts RunOpts) Part {
	return Part{Name: name, Quick: q, Thorough: t, Opts: opts, Gen: func(seed uint64) *RunSpec { return GenTurn(prop, seed, p) }}
}

func concPart(prop, name string, q, t int, p *Profile, opts RunOpts) Part {
	return Part{Name: name, Quick: q, Thorough: t, Opts: opts, Gen: func(seed uint64) *RunSpec { return GenConc(prop, seed, p) }}
}

func crashPart(prop, name string, q, t int, p *Profile, opts RunOpts) Part {
	return Part{Name: name, Quick: q, Thorough: t, Opts: opts, Gen: func(seed uint64) *RunSpec {
		s := GenConc(prop, seed, p)
		s.Scenario = "S-CRASH-RAND"
		r := simrt.NewRng(seed, "crashcfg")
		AddCrashes(s, seed, 1+r.Intn(2), 40+r.Intn(80))
		return s
	}}
}

func timePart(prop, name string, q, t int, p *Profile, opts RunOpts) Part {
	return Part{Name: name, Quick: q, Thorough: t, Opts: opts, Gen: func(seed uint64) *RunSpec {
		s := GenConc(prop, seed, p)
		s.Scenario = "S-TIME"
		AddTimeFaults(s, seed, 80)
		return s
	}}
}

// Plans returns the plan of every claimed property.
func Plans() map[string]*Plan {
	ps := map[string]*Plan{}

	// ---- C03
	{
		p := baseProfile()
		p.W = map[string]int{OpAdd: 10, OpAddMulti: 2, OpCompactRange: 3, OpCompactAll: 1, OpAutoCompact: 1, OpRead: 1, OpReopen: 1}
		p.MinOps, p.MaxOps = 4, 22
		p.HandlesPerTask = 2
		p.SmallBlocks = true
		p.ManyNames = 64
		p.RefsPerTxn = [2]int{0, 6}
		p.LogsPerTxn = [2]int{0, 4}
		p.AutoP = 0.3
		p.SkipNameCheckP = 0.5
		p.FwdLogP = 0.15
		p.LongNamesP = 0.12
		ps["C03"] = &Plan{Prop: "C03", Level: "exploration",
			Parts:      []Part{turnPart("C03", "S-TURN/deep-reads", 9000, 900000, p, RunOpts{DeepReads: true})},
			Rule:       "S-TURN histories (seeded; 1-2 handles, 4-22 ops, all record kinds, range/auto/full compaction, swarm Config); a run is non-trivial when a raw merged view over >=2 tables was compared and at least one seek was checked; distinct = distinct (interleaving hash, list versions, probe vector)",
			Nontrivial: func(r *RunResult) bool { return r.Probes["raw-merged-multi"] > 0 && r.Probes["seek-ref"] > 0 }}
	}
	// ---- C04
	{
		p := baseProfile()
		p.BadTxn = 0.05
		p.PrefixNamesP = 0.15
		p.FwdLogP = 0.05
		ps["C04"] = &Plan{Prop: "C04", Level: "exploration",
			Parts: []Part{
				concPart("C04", "S-CONC", 40000, 4000000, p, RunOpts{Porcupine: true}),
				timePart("C04", "S-TIME", 8000, 800000, p, RunOpts{Porcupine: true}),
				ioConcPart("C04", 8000, 800000, p, RunOpts{}),
				ioEnumPart("C04", 150, 15000),
			},
			Rule:       "S-CONC/S-TIME: 2-4 simulated processes, 2-6 ops each, interleaved at single filesystem calls by PCT/sticky/uniform schedulers with window biases; S-IOERR-CONC: the same with 1-3 injected I/O errors (EIO, ENOSPC with a short write, EMFILE, EACCES, EDQUOT at single filesystem calls, addressed by step or by call kind); S-IOERR: every filesystem call of a sampled target operation fails once (one run per call), the process goes on using its handle; non-trivial = at least 3 schedule segments and at least 2 commits; distinct = distinct hash of the shared-path event sequence projected to (task, call kind, path class, result)",
			Nontrivial: concNontrivial}
	}
	// ---- C05
	{
		p := baseProfile()
		p.W[OpCompactRange] = 4
		p.W[OpCompactAll] = 3
		p.W[OpAddMulti] = 4
		p.BadTxn = 0.08 // stale update indices, also inside multi-table Additions
		p.BigTableP = 0.03 // compactions whose inputs exceed 64 KiB (size thresholds in the write path)
		ps["C05"] = &Plan{Prop: "C05", Level: "exploration",
			Parts: []Part{
				concPart("C05", "S-CONC", 24000, 2400000, p, RunOpts{}),
				crashPart("C05", "S-CRASH-RAND", 18000, 1800000, p, RunOpts{}),
				{Name: "S-CRASH-ENUM", Quick: 500, Thorough: 50000, Gen: func(seed uint64) *RunSpec { return GenCrashEnum("C05", seed) }, Exec: ExecCrashEnum},
				ioEnumPart("C05", 300, 30000),
				ioConcPart("C05", 6000, 600000, p, RunOpts{}),
				concPart("C05", "S-CONC/compaction-storm", 8000, 800000, stormProfile(), RunOpts{}),
			},
			Rule:       "S-CONC, S-CONC/compaction-storm (3-4 processes compacting short ranges of a 6-14-table stack side by side), S-CRASH-RAND and S-CRASH-ENUM (every crash point of sampled operation instances, as in C06); S-IOERR-CONC: the same with 1-3 injected I/O errors (EIO, ENOSPC with a short write, EMFILE, EACCES, EDQUOT at single filesystem calls, addressed by step or by call kind); S-IOERR: every filesystem call of a sampled target operation fails once (one run per call), the process goes on using its handle; list-integrity checked after every mutating filesystem call of every process and after every crash; non-trivial = >=3 schedule segments and >=2 list versions; distinct = distinct projected event-sequence hash",
			Nontrivial: concNontrivial}
	}
	// ---- C06
	{
		p := baseProfile()
		ps["C06"] = &Plan{Prop: "C06", Level: "fault_enumeration",
			Parts: []Part{
				{Name: "S-CRASH-ENUM", Quick: 1500, Thorough: 150000, Gen: func(seed uint64) *RunSpec { return GenCrashEnum("C06", seed) }, Exec: ExecCrashEnum},
				crashPart("C06", "S-CRASH-RAND", 8000, 800000, p, RunOpts{}),
			},
			Rule:       "S-CRASH-ENUM: seeded prefix history (0-8 ops, 2 handles, swarm Config) + one target operation (Add, multi-table Addition, CompactAll, expiry, range compaction, AutoCompact, Clean, Close, reopen); the process is killed immediately before EVERY one of the target's K filesystem calls (exhaustive per instance), then a possibly stale survivor process and a fresh process continue. evaluations = executions (one per crash point, plus the crash-free baseline of each instance, plus S-CRASH-RAND runs); distinct_nontrivial = distinct (target operation kind, kind of the call the crash preceded, class of its path, position bucket inside the operation) combinations actually crashed at",
			Nontrivial: func(r *RunResult) bool { return r.Crashes > 0 }}
	}
	// ---- C07
	{
		p := baseProfile()
		p.W = map[string]int{OpAdd: 8, OpAddMulti: 1, OpCompactRange: 5, OpCompactAll: 2, OpAutoCompact: 2, OpReopen: 1, OpSetAuto: 1}
		p.FwdLogP = 0.2
		p.LongNamesP = 0.1
		p.MinOps, p.MaxOps = 5, 28
		p.HandlesPerTask = 2
		p.SmallBlocks = true
		p.RefsPerTxn = [2]int{0, 4}
		p.LogsPerTxn = [2]int{0, 3}
		ps["C07"] = &Plan{Prop: "C07", Level: "exploration",
			Parts: []Part{turnPart("C07", "S-TURN/compaction", 24000, 2400000, p, RunOpts{})},
			Rule:  "S-TURN histories with compactions of arbitrary contiguous ranges, CompactAll and auto-compaction; non-trivial = at least one compaction committed; distinct = distinct (event hash)",
			Nontrivial: func(r *RunResult) bool {
				for k, n := range r.CallCounts {
					_ = k
					_ = n
				}
				return r.Probes["compaction-commit"] > 0
			}}
	}
	// ---- C08
	{
		p := baseProfile()
		p.W = map[string]int{OpAdd: 6, OpAddMulti: 2, OpCompactAll: 4, OpCompactRange: 4, OpAutoCompact: 3, OpExpire: 1, OpClean: 2, OpBegin: 1, OpCommit: 1, OpAbort: 1}
		p.InitMax = 6
		ps["C08"] = &Plan{Prop: "C08", Level: "exploration",
			Parts: []Part{
				concPart("C08", "S-CONC/lock-heavy", 30000, 3000000, p, RunOpts{}),
				crashPart("C08", "S-CRASH-RAND", 9000, 900000, p, RunOpts{}),
				ioConcPart("C08", 8000, 800000, p, RunOpts{}),
				concPart("C08", "S-CONC/compaction-storm", 12000, 1200000, stormProfile(), RunOpts{}),
				timePart("C08", "S-TIME", 6000, 600000, p, RunOpts{}),
			},
			Rule: "lock-heavy S-CONC/S-CRASH-RAND (compactions racing Adds and each other), S-CONC/compaction-storm (3-4 processes compacting short ranges of a deep stack side by side); S-IOERR-CONC: the same with 1-3 injected I/O errors (EIO, ENOSPC with a short write, EMFILE, EACCES, EDQUOT at single filesystem calls, addressed by step or by call kind); S-IOERR: every filesystem call of a sampled target operation fails once (one run per call), the process goes on using its handle; S-TIME: the lock-heavy workload with slow-process windows and clock jumps of 1-10 s (file modification times follow the simulated clock); lock-tenure monitor on every create/remove/rename of *.lock; non-trivial = a lock acquisition failed with EEXIST or another process ran inside a compaction's unlocked window; distinct = distinct projected event-sequence hash",
			Nontrivial: func(r *RunResult) bool {
				return probeAny(r, "lock-contention-listlock", "lock-contention-tablelock", "W1-other-task-ran")
			}}
	}
	// ---- C09
	{
		p := baseProfile()
		p.W = map[string]int{OpAdd: 10, OpAddMulti: 2, OpCompactAll: 2, OpAutoCompact: 2, OpCompactRange: 2, OpClean: 1, OpExpire: 1, OpReopen: 1, OpBegin: 2, OpCommit: 1, OpAbort: 2}
		p.MinOps, p.MaxOps = 6, 30
		p.HandlesPerTask = 4
		p.AutoP = 0.4
		p.PrefixNamesP = 0.25 // retries whose legality depends on what the refreshed view shows (tombstones of directory names)
		ps["C09"] = &Plan{Prop: "C09", Level: "exploration",
			Parts:      []Part{turnPart("C09", "S-TURN/stale-handles", 24000, 2400000, p, RunOpts{})},
			Rule:       "S-TURN histories over 2-4 handles; non-trivial = a write was attempted through a stale handle; distinct = distinct event hash",
			Nontrivial: func(r *RunResult) bool { return r.Probes["op-through-stale-handle"] > 0 }}
	}
	// ---- C10
	{
		p := baseProfile()
		p.RoleW = []map[string]int{
			{OpRead: 10, OpAdd: 3, OpReopen: 2, OpUpToDate: 1, OpAddMulti: 2, OpClean: 2, OpBegin: 1, OpAbort: 1},
			{OpAdd: 8, OpCompactAll: 3, OpCompactRange: 3, OpAutoCompact: 2, OpExpire: 1},
			{OpAdd: 8, OpCompactAll: 3, OpCompactRange: 3, OpAutoCompact: 2},
			{OpRead: 8, OpAdd: 3, OpReopen: 3, OpClean: 2, OpAddMulti: 1},
		}
		p.ForceLocalP = true
		p.MinOps, p.MaxOps = 3, 7
		p.BigTableP = 0.03
		ps["C10"] = &Plan{Prop: "C10", Level: "exploration",
			Parts: []Part{
				concPart("C10", "S-CONC/readers-vs-churn", 40000, 4000000, p, RunOpts{}),
				timePart("C10", "S-TIME", 8000, 800000, p, RunOpts{}),
				ioConcPart("C10", 16000, 1600000, p, RunOpts{}),
				concPart("C10", "S-CONC/compaction-storm", 8000, 800000, func() *Profile {
					// a reader that refreshes through failed Adds (reload with
					// reader reuse) while the others move the list under it:
					// compactions below and above the tables it holds, new
					// tables on top, compactions of those new tables
					q := stormProfile()
					q.ForceLocalP = true
					q.MinOps, q.MaxOps = 4, 9
					q.RoleW = []map[string]int{
						{OpRead: 4, OpAdd: 4, OpUpToDate: 1},
						{OpCompactRange: 8, OpAdd: 6},
						{OpCompactRange: 8, OpAdd: 6, OpAutoCompact: 1},
						{OpAdd: 6, OpCompactRange: 4, OpRead: 2},
					}
					return q
				}(), RunOpts{}),
			},
			Rule: "reader/reloader processes against 1-3 churn processes (Add, compactions), every ReadAt/open a scheduling point; S-CONC/compaction-storm with a reader that refreshes through failed Adds; S-IOERR-CONC: the same with 1-3 injected I/O errors (EIO, ENOSPC with a short write, EMFILE, EACCES, EDQUOT at single filesystem calls, addressed by step or by call kind); S-IOERR: every filesystem call of a sampled target operation fails once (one run per call), the process goes on using its handle; non-trivial = a reload hit a vanished table or a read ran through a handle that was stale; distinct = distinct projected event-sequence hash",
			Nontrivial: func(r *RunResult) bool {
				return probeAny(r, "reload-enoent", "op-through-stale-handle") && len(r.Segs) > 2
			}}
	}
	// ---- C11
	{
		p := baseProfile()
		p.W = map[string]int{OpAdd: 10, OpAddMulti: 2, OpCompactRange: 2, OpCompactAll: 1, OpAutoCompact: 1, OpReopen: 1}
		p.MinOps, p.MaxOps = 3, 14
		p.HandlesPerTask = 1
		p.SharedOids = 5
		p.SmallBlocks = true
		p.ManyNames = 64
		p.HugeNames = 260
		p.LongNamesP = 0.1
		p.Logs = false
		p.RefsPerTxn = [2]int{1, 8}
		p.PopularP = 0.3
		p.WidePopularP = 0.3
		ps["C11"] = &Plan{Prop: "C11", Level: "exploration",
			Parts: []Part{turnPart("C11", "S-TURN/refsfor", 4000, 400000, p, RunOpts{DeepReads: true, DeepRefsFor: true})},
			Rule:  "S-TURN histories with shared object ids, re-pointed and deleted refs, peeled values, object index on/off, small blocks, popular-oid runs; RefsFor on stack view, raw merged sub-ranges and single tables vs filter of the full scan; non-trivial = a table with an object index was queried and a query had hits; distinct = distinct event hash",
			Nontrivial: func(r *RunResult) bool {
				return r.Probes["table-with-obj-index"] > 0 && probeAny(r, "refsfor-hit-table", "refsfor-hit-stack-view")
			}}
	}
	// ---- C12
	{
		p := baseProfile()
		p.Names = append(append([]string{}, prefixNames...), badNames[:3]...)
		p.ForceNameCheck = true
		p.Logs = false
		p.W = map[string]int{OpAdd: 10, OpAddMulti: 5, OpCompactAll: 1, OpReopen: 1, OpAutoCompact: 1, OpBegin: 3, OpCommit: 3, OpAbort: 1}
		p.MinOps, p.MaxOps = 3, 18
		p.HandlesPerTask = 2
		p.RefsPerTxn = [2]int{1, 3}
		ps["C12"] = &Plan{Prop: "C12", Level: "exploration",
			Parts:      []Part{turnPart("C12", "S-TURN/prefix-names", 40000, 4000000, p, RunOpts{})},
			Rule:       "S-TURN histories over a prefix-rich alphabet (a, a/b, a/b/c, a/bb, ab, b, b/a, malformed names), single-table Adds and multi-table Additions; the model decides legality; non-trivial = at least one transaction was rejected for a name conflict and one committed; distinct = distinct event hash",
			Nontrivial: func(r *RunResult) bool { return r.Probes["rejected-name"] > 0 && r.Versions > 1 }}
	}
	// ---- C13
	{
		p := baseProfile()
		p.W = map[string]int{OpAdd: 10, OpAddMulti: 1, OpExpire: 4, OpCompactAll: 1, OpCompactRange: 1, OpReopen: 1}
		p.MinOps, p.MaxOps = 4, 20
		p.HandlesPerTask = 2
		p.LogsPerTxn = [2]int{1, 4}
		p.RefsPerTxn = [2]int{0, 2}
		p.FwdLogP = 0.15
		p.BulkLogsP = 0.1
		ps["C13"] = &Plan{Prop: "C13", Level: "exploration",
			Parts:      []Part{turnPart("C13", "S-TURN/expiry", 20000, 2000000, p, RunOpts{})},
			Rule:       "S-TURN stacks with several log entries per ref across tables; expiry configurations with each limit unset/below/inside/equal/above; non-trivial = an expiry compaction committed; distinct = distinct event hash",
			Nontrivial: func(r *RunResult) bool { return r.Probes["expire-commit"] > 0 }}
	}
	// ---- C16
	{
		p := baseProfile()
		p.BadTxn = 0.2
		p.W = map[string]int{OpAdd: 8, OpAddMulti: 3, OpCompactAll: 3, OpCompactRange: 3, OpAutoCompact: 2, OpExpire: 1, OpClean: 3, OpReopen: 1, OpClose: 1, OpBegin: 2, OpCommit: 1, OpAbort: 1}
		p.InitMax = 4
		p.PrefixNamesP = 0.35
		q := baseProfile()
		q.PrefixNamesP = 0.35
		q.BadTxn = 0.2
		q.W = map[string]int{OpAdd: 8, OpAddMulti: 3, OpCompactAll: 2, OpClean: 4, OpReopen: 2, OpCompactRange: 2, OpBegin: 2, OpCommit: 1, OpAbort: 2}
		q.MinOps, q.MaxOps = 3, 16
		ps["C16"] = &Plan{Prop: "C16", Level: "exploration",
			Parts: []Part{
				concPart("C16", "S-CONC/failure-paths", 24000, 2400000, p, RunOpts{}),
				crashPart("C16", "S-CRASH-RAND", 9000, 900000, p, RunOpts{}),
				turnPart("C16", "S-TURN", 9000, 900000, q, RunOpts{}),
				ioEnumPart("C16", 300, 30000),
				ioConcPart("C16", 6000, 600000, p, RunOpts{}),
				concPart("C16", "S-CONC/compaction-storm", 8000, 800000, stormProfile(), RunOpts{}),
				timePart("C16", "S-TIME", 8000, 800000, p, RunOpts{}),
			},
			Rule: "S-CONC with failure paths provoked (contended Adds, rejected transactions, lost lock races, empty stacks, Clean/Close in all states), S-CONC/compaction-storm, S-CRASH-RAND, S-TURN; S-IOERR-CONC: the same with 1-3 injected I/O errors (EIO, ENOSPC with a short write, EMFILE, EACCES, EDQUOT at single filesystem calls, addressed by step or by call kind); S-IOERR: every filesystem call of a sampled target operation fails once (one run per call), the process goes on using its handle; S-TIME: slow-process windows and clock jumps; residue monitors at every idle point and at quiescence; non-trivial = some operation failed or lost a lock race; distinct = distinct projected event-sequence hash",
			Nontrivial: func(r *RunResult) bool {
				for k, n := range r.CallCounts {
					if n > 0 && (hasSuffix(k, ":lockfail") || hasSuffix(k, ":error")) {
						return true
					}
				}
				return probeAny(r, "lock-contention-listlock", "lock-contention-tablelock")
			}}
	}
	// ---- C17
	{
		p := baseProfile()
		p.W = map[string]int{OpAdd: 12, OpAutoCompact: 5, OpAddMulti: 2, OpCompactRange: 1, OpReopen: 1}
		p.BigMultiP = 0.35
		p.MinOps, p.MaxOps = 6, 40
		p.HandlesPerTask = 2
		p.AutoP = 0.7
		p.RefsPerTxn = [2]int{1, 12}
		p.ManyNames = 48
		p.SmallBlocks = true
		ps["C17"] = &Plan{Prop: "C17", Level: "exploration",
			Parts: []Part{
				{Name: "S-GROW", Quick: 400, Thorough: 20000, Gen: func(seed uint64) *RunSpec { return GenGrow("C17", seed, 1024) }},
				{Name: "S-GROW/large", Quick: 16, Thorough: 3000, Gen: func(seed uint64) *RunSpec { return GenGrow("C17", seed, 4096) }},
				turnPart("C17", "S-TURN/auto-compaction", 6000, 600000, p, RunOpts{}),
				concPart("C17", "S-CONC/auto-compaction", 12000, 1200000, func() *Profile {
					q := baseProfile()
					q.W = map[string]int{OpAdd: 14, OpAutoCompact: 2, OpCompactRange: 1, OpBegin: 1, OpAbort: 1}
					q.MinTasks, q.MaxTasks = 2, 3
					q.MinOps, q.MaxOps = 4, 14
					q.AutoP = 0.9
					q.RefsPerTxn = [2]int{1, 6}
					return q
				}(), RunOpts{}),
			},
			Rule: "S-GROW: single writer, N in [64,4096] transactions of identical table size (verified from the disk at each commit; payload shape and Config vary per run), depth <= 2*log2(N) after every Add and EntriesWritten <= N*log2(N)*entriesPerTxn at the end; every auto-compaction decision is compared with the size-class rule computed from file sizes on the simulated disk (skipped when whole-file and payload readings classify differently); S-TURN histories with auto-compaction for the valid-range/progress monitor. non-trivial = at least one auto-compaction committed or one decision judged; distinct = distinct workload shapes / event hashes",
			Nontrivial: func(r *RunResult) bool {
				return probeAny(r, "grow-judged-decisions", "c17-judged-decision", "c17-judged-add-decision", "auto-compaction-commit")
			}}
	}
	// ---- C19
	{
		ps["C19"] = &Plan{Prop: "C19", Level: "exploration",
			Parts: []Part{
				{Name: "S-SHARE", Quick: 12000, Thorough: 1000000, Gen: func(seed uint64) *RunSpec { return GenShare("C19", seed) }},
				{Name: "S-SHARE-STMT", Quick: 1000, Thorough: 100000, Gen: func(seed uint64) *RunSpec { return GenShareStmt("C19", seed) }},
				{Name: "S-SHARE-RACE", Quick: 24, Thorough: 1200, Gen: func(seed uint64) *RunSpec { return GenShareRace("C19", seed, 12) }},
			},
			Rule:        "S-SHARE: one Reader (simulated-disk BlockSource, or a file on the simulated filesystem), one Merged or one Stack.Merged() shared by 2-8 reader tasks with seeded programs of scans, seeks and RefsFor, interleaved at every ReadBlock/ReadAt by the seeded scheduler; results must equal those of each program alone on a separate fresh instance. S-SHARE-STMT: the same, with a yield point inserted before EVERY statement of the library by the rewriter (statement-level interleaving, still one seed = one exactly replayable schedule). S-SHARE-RACE: the same seeded programs on free-running goroutines in a race-detector build of the unrewritten sources (12 cases per process); any race report or result mismatch is a violation. non-trivial = at least two tasks interleaved (>=3 schedule segments) or a race-build batch; distinct = distinct (schedule, case) hashes",
			Nontrivial:  func(r *RunResult) bool { return len(r.Segs) > 2 || r.Probes["race-cases"] > 0 },
			Assumptions: []string{"race-detector reports are happens-before based: they reproduce with the same seed with overwhelming probability, but that part of a replay is not exact", "the deterministic part interleaves only at the block-read seam; memory-level races are the race detector's job"}}
	}
	// ---- C18
	{
		ps["C18"] = &Plan{Prop: "C18", Level: "exploration", MemLimit: 6 << 30, DeathIsViolation: true, WatchdogS: 60,
			Parts:       []Part{{Name: "S-CORRUPT", Quick: 250000, Thorough: 30000000, Gen: func(seed uint64) *RunSpec { return GenCorrupt("C18", seed) }}},
			Rule:        "S-CORRUPT: a valid table (real Writer; 0-60 refs of all kinds, 0-20 log entries, swarm Config incl. small blocks, both hash sizes) hit by 1-8 storage faults (bit flip, byte overwrite, truncation, zeroed aligned range, splice from another offset or table, u24/u16 length-field edits, footer-field edits with the CRC repaired, header copied to footer with CRC repaired, trailing garbage) and, in faulty-source mode, transient short/empty/failed ReadBlock results; workload NewReader + full scans + seeks + RefsFor through the library's ByteBlockSource, through a clamping simulated-disk source, and through NewStack/Merged over a directory holding the damaged table; non-trivial = the damaged bytes differ from the original; distinct = distinct damaged byte strings",
			Nontrivial:  func(r *RunResult) bool { return r.Probes["corrupt-noop"] == 0 && r.Probes["corrupt-unbuildable"] == 0 },
			Assumptions: []string{"arbitrary byte strings are reached only as mutations of valid tables; there is no coverage guidance", "pure CPU loops are caught by iteration caps and a 60 s per-run watchdog (also applied when a replay file is replayed)"}}
	}
	return ps
}

func hasSuffix(s, suf string) bool { return len(s) >= len(suf) && s[len(s)-len(suf):] == suf }
