package simrt

import (
	"cmp"
	"sort"
)

// SleepNS is time.Sleep of the shim: a yield point that advances the clock.
func SleepNS(d int64) {
	s := G
	if s == nil {
		return
	}
	t := s.cur
	if t == nil || t.quiet > 0 {
		return
	}
	c := Call{Kind: "sleep", Local: true}
	if !t.yield(c) {
		return
	}
	if d > 0 {
		s.Now += d
	}
	Record(t, c, false, 0, 0, nil)
}

// Keys is what the rewriter turns `range m` over a map into: the keys in a
// simulator-chosen (hash-addressed) order; sorted order outside a
// simulation. Each permutation is one of the orders Go permits.
func Keys[K cmp.Ordered, V any](m map[K]V) []K {
	ks := make([]K, 0, len(m))
	for k := range m {
		ks = append(ks, k)
	}
	sort.Slice(ks, func(i, j int) bool { return ks[i] < ks[j] })
	if seed, ok := mapPermSeed(); ok && len(ks) > 1 {
		r := &Rng{s: seed}
		for i := len(ks) - 1; i > 0; i-- {
			j := r.Intn(i + 1)
			ks[i], ks[j] = ks[j], ks[i]
		}
	}
	return ks
}

// YieldPoint is a scheduling point that touches no simulated state (the
// BlockSource seam of S-SHARE).
func YieldPoint(kind string) {
	s := G
	if s == nil {
		return
	}
	t := s.cur
	if t == nil || t.quiet > 0 {
		return
	}
	c := Call{Kind: kind}
	if !t.yield(c) {
		return
	}
	Record(t, c, false, 0, 0, nil)
}

// StmtYields switches statement-level yield points on (only the
// shared-reader scenario with a binary built by `rewrite -yields` uses it).
var StmtYields bool

// Y is what `rewrite -yields` inserts before every statement of the library.
func Y() {
	if !StmtYields {
		return
	}
	s := G
	if s == nil {
		return
	}
	t := s.cur
	if t == nil || t.quiet > 0 || t.Killed {
		return
	}
	t.yield(Call{Kind: "stmt", Local: true})
	s.StmtSteps++
}
