#!/bin/sh
# runs every registered quick check once and prints one line each
cd "$(dirname "$0")/.."
for p in $(python3 -c "import json;print(' '.join(c['property_id'] for c in json.load(open('MANIFEST.json'))['checks']))"); do
  s=$(date +%s); out=$(bin/check $p --tier "${TIER:-quick}" 2>&1); ec=$?; e=$(date +%s)
  echo "$p exit=$ec $((e-s))s $(echo "$out" | grep '^check ' | tail -1 | cut -c1-160)"
  [ $ec -ne 0 ] && echo "$out" | grep -E "^(C[0-9]+/|VIOLATION|NONDET|check:)" | head -6 | cut -c1-300
done
