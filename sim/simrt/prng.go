// Package simrt is the deterministic simulation runtime: seeded PRNG,
// in-memory POSIX-subset filesystem, simulated clock, cooperative
// one-at-a-time task scheduler and event log. It knows nothing about
// package reftable.
package simrt

// splitmix64: own implementation so that streams do not depend on the Go
// release.
func Mix64(x uint64) uint64 {
	x += 0x9e3779b97f4a7c15
	z := x
	z = (z ^ (z >> 30)) * 0xbf58476d1ce4e5b9
	z = (z ^ (z >> 27)) * 0x94d049bb133111eb
	return z ^ (z >> 31)
}

// HashStr folds a label into a seed.
func HashStr(seed uint64, s string) uint64 {
	h := Mix64(seed ^ 0x5151515151515151)
	for i := 0; i < len(s); i++ {
		h = Mix64(h ^ uint64(s[i]))
	}
	return h
}

// Hash4 is the hash-addressed randomness: h(seed, kind, a, b).
func Hash4(seed uint64, kind string, a, b uint64) uint64 {
	h := HashStr(seed, kind)
	h = Mix64(h ^ Mix64(a+0x1234567))
	h = Mix64(h ^ Mix64(b+0x7654321))
	return h
}

// Rng is a streamed generator (one labelled sub-stream of a run seed).
type Rng struct{ s uint64 }

func NewRng(seed uint64, label string) *Rng { return &Rng{s: HashStr(seed, label)} }

func (r *Rng) U64() uint64 {
	r.s += 0x9e3779b97f4a7c15
	z := r.s
	z = (z ^ (z >> 30)) * 0xbf58476d1ce4e5b9
	z = (z ^ (z >> 27)) * 0x94d049bb133111eb
	return z ^ (z >> 31)
}

// Intn returns a value in [0,n). n<=0 returns 0.
func (r *Rng) Intn(n int) int {
	if n <= 1 {
		return 0
	}
	return int(r.U64() % uint64(n))
}

func (r *Rng) Float() float64 { return float64(r.U64()>>11) / float64(1<<53) }

func (r *Rng) Bool(p float64) bool { return r.Float() < p }

// Pick returns one of the given ints.
func (r *Rng) Pick(xs ...int) int { return xs[r.Intn(len(xs))] }

// Perm returns a permutation of [0,n).
func (r *Rng) Perm(n int) []int {
	p := make([]int, n)
	for i := range p {
		p[i] = i
	}
	for i := n - 1; i > 0; i-- {
		j := r.Intn(i + 1)
		p[i], p[j] = p[j], p[i]
	}
	return p
}
