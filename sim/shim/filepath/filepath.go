// Package filepath is the simulator's stand-in for path/filepath: the
// lexical functions are the real ones, the ones that look at the disk
// (Glob, Walk, WalkDir, EvalSymlinks, Abs) go through the os shim, so that
// they see the simulated disk and are scheduling points like every other
// filesystem call.
package filepath

import (
	"io/fs"
	rfp "path/filepath"
	"sort"

	os "verifsim/shim/os"
)

const (
	Separator     = rfp.Separator
	ListSeparator = rfp.ListSeparator
)

var (
	ErrBadPattern = rfp.ErrBadPattern
	SkipDir       = rfp.SkipDir
	SkipAll       = fs.SkipAll
)

type WalkFunc = rfp.WalkFunc

func Base(p string) string                  { return rfp.Base(p) }
func Clean(p string) string                 { return rfp.Clean(p) }
func Dir(p string) string                   { return rfp.Dir(p) }
func Ext(p string) string                   { return rfp.Ext(p) }
func FromSlash(p string) string             { return rfp.FromSlash(p) }
func ToSlash(p string) string               { return rfp.ToSlash(p) }
func IsAbs(p string) bool                   { return rfp.IsAbs(p) }
func IsLocal(p string) bool                 { return rfp.IsLocal(p) }
func Join(e ...string) string               { return rfp.Join(e...) }
func Match(pat, name string) (bool, error)  { return rfp.Match(pat, name) }
func Rel(base, targ string) (string, error) { return rfp.Rel(base, targ) }
func Split(p string) (string, string)       { return rfp.Split(p) }
func SplitList(p string) []string           { return rfp.SplitList(p) }
func VolumeName(p string) string            { return rfp.VolumeName(p) }
func EvalSymlinks(p string) (string, error) { // the simulated disk has no symbolic links
	if _, err := os.Lstat(p); err != nil {
		return "", err
	}
	return rfp.Clean(p), nil
}

func Abs(p string) (string, error) {
	if rfp.IsAbs(p) {
		return rfp.Clean(p), nil
	}
	return rfp.Join("/", p), nil
}

func hasMeta(p string) bool {
	for i := 0; i < len(p); i++ {
		switch p[i] {
		case '*', '?', '[', '\\':
			return true
		}
	}
	return false
}

// Glob as in path/filepath, over the simulated disk.
func Glob(pattern string) ([]string, error) {
	if _, err := rfp.Match(pattern, ""); err != nil {
		return nil, err
	}
	if !hasMeta(pattern) {
		if _, err := os.Lstat(pattern); err != nil {
			return nil, nil
		}
		return []string{pattern}, nil
	}
	dir, file := rfp.Split(pattern)
	dir = cleanGlobPath(dir)
	var dirs []string
	if !hasMeta(dir) {
		dirs = []string{dir}
	} else {
		if dir == pattern {
			return nil, rfp.ErrBadPattern
		}
		var err error
		dirs, err = Glob(dir)
		if err != nil {
			return nil, err
		}
	}
	var matches []string
	for _, d := range dirs {
		es, err := os.ReadDir(d)
		if err != nil {
			continue
		}
		var names []string
		for _, e := range es {
			names = append(names, e.Name())
		}
		sort.Strings(names)
		for _, n := range names {
			ok, err := rfp.Match(file, n)
			if err != nil {
				return matches, err
			}
			if ok {
				matches = append(matches, rfp.Join(d, n))
			}
		}
	}
	return matches, nil
}

func cleanGlobPath(p string) string {
	switch p {
	case "":
		return "."
	case string(rfp.Separator):
		return p
	}
	return p[:len(p)-1]
}

// Walk as in path/filepath (lexical order), over the simulated disk.
func Walk(root string, fn WalkFunc) error {
	info, err := os.Lstat(root)
	if err != nil {
		err = fn(root, nil, err)
	} else {
		err = walk(root, info, fn)
	}
	if err == rfp.SkipDir || err == fs.SkipAll {
		return nil
	}
	return err
}

func walk(path string, info fs.FileInfo, fn WalkFunc) error {
	if !info.IsDir() {
		return fn(path, info, nil)
	}
	es, rerr := os.ReadDir(path)
	err := fn(path, info, rerr)
	if rerr != nil || err != nil {
		return err
	}
	var names []string
	for _, e := range es {
		names = append(names, e.Name())
	}
	sort.Strings(names)
	for _, n := range names {
		p := rfp.Join(path, n)
		fi, err := os.Lstat(p)
		if err != nil {
			if err := fn(p, fi, err); err != nil && err != rfp.SkipDir {
				return err
			}
			continue
		}
		if err := walk(p, fi, fn); err != nil {
			if !fi.IsDir() || err != rfp.SkipDir {
				return err
			}
		}
	}
	return nil
}

// WalkDir as in path/filepath, over the simulated disk.
func WalkDir(root string, fn fs.WalkDirFunc) error {
	return Walk(root, func(p string, info fs.FileInfo, err error) error {
		if info == nil {
			return fn(p, nil, err)
		}
		return fn(p, fs.FileInfoToDirEntry(info), err)
	})
}
