// Package os is the simulator's stand-in for package os. The rewritten
// library imports it under the name "os"; every call is a yield point of
// the scheduler and operates on the simulated (or pass-through) disk.
package os

import (
	"io"
	"io/fs"
	ros "os"
	"path/filepath"
	"strconv"
	"strings"
	"syscall"
	"time"

	"verifsim/simrt"
)

type (
	FileInfo  = fs.FileInfo
	FileMode  = fs.FileMode
	PathError = fs.PathError
	LinkError = ros.LinkError
	DirEntry  = fs.DirEntry
	Signal    = ros.Signal
)

const (
	O_RDONLY = ros.O_RDONLY
	O_WRONLY = ros.O_WRONLY
	O_RDWR   = ros.O_RDWR
	O_APPEND = ros.O_APPEND
	O_CREATE = ros.O_CREATE
	O_EXCL   = ros.O_EXCL
	O_SYNC   = ros.O_SYNC
	O_TRUNC  = ros.O_TRUNC

	ModePerm = ros.ModePerm
	ModeDir  = ros.ModeDir

	PathSeparator = ros.PathSeparator
)

var (
	ErrInvalid          = ros.ErrInvalid
	ErrPermission       = ros.ErrPermission
	ErrExist            = ros.ErrExist
	ErrNotExist         = ros.ErrNotExist
	ErrClosed           = ros.ErrClosed
	ErrDeadlineExceeded = ros.ErrDeadlineExceeded

	Stdout = ros.Stdout
	Stderr = ros.Stderr
	Stdin  = ros.Stdin
	Args   = ros.Args
)

func IsExist(err error) bool            { return ros.IsExist(err) }
func IsNotExist(err error) bool         { return ros.IsNotExist(err) }
func IsPermission(err error) bool       { return ros.IsPermission(err) }
func IsTimeout(err error) bool          { return ros.IsTimeout(err) }
// The environment of the worker process is not part of a run: every
// variable is unset.
func Getenv(k string) string            { return "" }
func LookupEnv(k string) (string, bool) { return "", false }
func Getpid() int                       { return simrt.Pid() }
func Getppid() int                      { return 1 }
func Exit(c int)                        { ros.Exit(c) }
func TempDir() string                   { return "/tmp" }
func IsPathSeparator(c uint8) bool      { return ros.IsPathSeparator(c) }
func Hostname() (string, error)         { return "sim", nil }

// File is the simulator's descriptor type. All methods accept a nil
// receiver and answer ErrInvalid exactly as the real one does.
type File struct {
	st   *simrt.FileState
	name string
	// directory handle (Open of a directory): entries are handed out in
	// directory order, a permutation the simulator chooses
	dir       bool
	dirClosed bool
	dirEnts   []FileInfo
	dirRead   bool
}

func (f *File) isDirErr(op string) error {
	return &PathError{Op: op, Path: f.name, Err: syscall.EISDIR}
}

// Readdir returns up to n entries (all that are left when n <= 0) in
// directory order.
func (f *File) Readdir(n int) ([]FileInfo, error) {
	if f == nil {
		return nil, ErrInvalid
	}
	if !f.dir {
		return nil, &PathError{Op: "readdirent", Path: f.name, Err: syscall.ENOTDIR}
	}
	if f.dirClosed {
		return nil, &PathError{Op: "readdirent", Path: f.name, Err: ErrClosed}
	}
	if !f.dirRead {
		seed := simrt.DirPermSeed()
		fis, err := ReadDirInfos(f.name)
		if err != nil {
			return nil, err
		}
		for i := len(fis) - 1; i > 0; i-- {
			seed = simrt.Mix64(seed + uint64(i))
			j := int(seed % uint64(i+1))
			fis[i], fis[j] = fis[j], fis[i]
		}
		f.dirEnts, f.dirRead = fis, true
	}
	if n <= 0 {
		res := f.dirEnts
		f.dirEnts = nil
		return res, nil
	}
	if len(f.dirEnts) == 0 {
		return nil, io.EOF
	}
	if n > len(f.dirEnts) {
		n = len(f.dirEnts)
	}
	res := f.dirEnts[:n]
	f.dirEnts = f.dirEnts[n:]
	return res, nil
}

func (f *File) Readdirnames(n int) ([]string, error) {
	fis, err := f.Readdir(n)
	var res []string
	for _, fi := range fis {
		res = append(res, fi.Name())
	}
	return res, err
}

func (f *File) ReadDir(n int) ([]DirEntry, error) {
	fis, err := f.Readdir(n)
	var res []DirEntry
	for _, fi := range fis {
		res = append(res, dirEntry{fi})
	}
	return res, err
}

type fileInfo struct {
	name  string
	size  int64
	isDir bool
	mtime int64 // ns on the simulated clock
}

func (fi *fileInfo) Name() string { return fi.name }
func (fi *fileInfo) Size() int64  { return fi.size }
func (fi *fileInfo) Mode() FileMode {
	if fi.isDir {
		return ModeDir | 0755
	}
	return 0644
}
func (fi *fileInfo) ModTime() time.Time {
	g := simrt.MTimeGranNS()
	return time.Unix(0, (simrt.EpochNS+fi.mtime)/g*g).UTC()
}
func (fi *fileInfo) IsDir() bool        { return fi.isDir }
func (fi *fileInfo) Sys() interface{}   { return nil }

// MkFileInfo is used by the ioutil shim.
func MkFileInfo(name string, size int64, isDir bool) FileInfo {
	return &fileInfo{name, size, isDir, 0}
}

func refused(op, p string) error { return &PathError{Op: op, Path: p, Err: simrt.Refused} }

func pathClass(flag int) string {
	switch {
	case flag&O_CREATE != 0 && flag&O_EXCL != 0:
		return "createx"
	case flag&O_CREATE != 0:
		return "create"
	}
	return "open"
}

func OpenFile(name string, flag int, perm FileMode) (*File, error) {
	c := simrt.Call{Kind: pathClass(flag), Path: name}
	be, t, ok := simrt.Enter(c)
	if !ok {
		return nil, refused("open", name)
	}
	if en, _, inj := simrt.InjectIO(t, c); inj {
		err := &PathError{Op: "open", Path: name, Err: en}
		simrt.Record(t, c, flag&(O_CREATE|O_TRUNC) != 0, 0, 0, err)
		return nil, err
	}
	if flag&(O_WRONLY|O_RDWR|O_CREATE) == 0 {
		if fi, serr := be.Stat(name); serr == nil && fi.IsDir {
			simrt.Record(t, c, false, 0, 0, nil)
			return &File{name: name, dir: true}, nil
		}
	}
	h, err := be.OpenFile(name, flag, perm)
	var ino uint64
	var f *File
	if err == nil {
		ino = h.Ino()
		f = &File{st: &simrt.FileState{H: h, Name: name}, name: name}
		simrt.RegisterFile(t, f.st)
	}
	simrt.Record(t, c, flag&(O_CREATE|O_TRUNC) != 0, ino, 0, err)
	if err != nil {
		return nil, err
	}
	return f, nil
}

func Open(name string) (*File, error)   { return OpenFile(name, O_RDONLY, 0) }
func Create(name string) (*File, error) { return OpenFile(name, O_RDWR|O_CREATE|O_TRUNC, 0666) }

func Rename(oldpath, newpath string) error {
	c := simrt.Call{Kind: "rename", Path: oldpath, Path2: newpath}
	be, t, ok := simrt.Enter(c)
	if !ok {
		return &LinkError{Op: "rename", Old: oldpath, New: newpath, Err: simrt.Refused}
	}
	var ino uint64
	if fi, e := be.Stat(oldpath); e == nil {
		ino = fi.Ino
	}
	if en, _, inj := simrt.InjectIO(t, c); inj {
		err := &LinkError{Op: "rename", Old: oldpath, New: newpath, Err: en}
		simrt.Record(t, c, true, ino, 0, err)
		return err
	}
	err := be.Rename(oldpath, newpath)
	simrt.Record(t, c, true, ino, 0, err)
	return err
}

func Link(oldpath, newpath string) error {
	c := simrt.Call{Kind: "link", Path: oldpath, Path2: newpath}
	be, t, ok := simrt.Enter(c)
	if !ok {
		return &LinkError{Op: "link", Old: oldpath, New: newpath, Err: simrt.Refused}
	}
	err := be.Link(oldpath, newpath)
	simrt.Record(t, c, true, 0, 0, err)
	return err
}

func Remove(name string) error {
	c := simrt.Call{Kind: "remove", Path: name}
	be, t, ok := simrt.Enter(c)
	if !ok {
		return refused("remove", name)
	}
	var ino uint64
	if fi, e := be.Stat(name); e == nil {
		ino = fi.Ino
	}
	if en, _, inj := simrt.InjectIO(t, c); inj {
		err := &PathError{Op: "remove", Path: name, Err: en}
		simrt.Record(t, c, true, ino, 0, err)
		return err
	}
	err := be.Remove(name)
	simrt.Record(t, c, true, ino, 0, err)
	return err
}

func RemoveAll(name string) error {
	c := simrt.Call{Kind: "removeall", Path: name}
	be, t, ok := simrt.Enter(c)
	if !ok {
		return refused("removeall", name)
	}
	err := be.RemoveAll(name)
	simrt.Record(t, c, true, 0, 0, err)
	return err
}

func Mkdir(name string, perm FileMode) error { return MkdirAll(name, perm) }

func MkdirAll(name string, perm FileMode) error {
	c := simrt.Call{Kind: "mkdir", Path: name}
	be, t, ok := simrt.Enter(c)
	if !ok {
		return refused("mkdir", name)
	}
	err := be.MkdirAll(name)
	simrt.Record(t, c, true, 0, 0, err)
	return err
}

func Stat(name string) (FileInfo, error) {
	c := simrt.Call{Kind: "stat", Path: name}
	be, t, ok := simrt.Enter(c)
	if !ok {
		return nil, refused("stat", name)
	}
	if en, _, inj := simrt.InjectIO(t, c); inj {
		err := &PathError{Op: "stat", Path: name, Err: en}
		simrt.Record(t, c, false, 0, 0, err)
		return nil, err
	}
	fi, err := be.Stat(name)
	simrt.Record(t, c, false, fi.Ino, 0, err)
	if err != nil {
		return nil, err
	}
	return &fileInfo{fi.Name, fi.Size, fi.IsDir, fi.MTime}, nil
}

func Lstat(name string) (FileInfo, error) { return Stat(name) }

func ReadFile(name string) ([]byte, error) {
	c := simrt.Call{Kind: "readfile", Path: name}
	be, t, ok := simrt.Enter(c)
	if !ok {
		return nil, refused("open", name)
	}
	if en, _, inj := simrt.InjectIO(t, c); inj {
		err := &PathError{Op: "read", Path: name, Err: en}
		simrt.Record(t, c, false, 0, 0, err)
		return nil, err
	}
	b, err := be.ReadFile(name)
	simrt.Record(t, c, false, 0, len(b), err)
	return b, err
}

func WriteFile(name string, data []byte, perm FileMode) error {
	f, err := OpenFile(name, O_WRONLY|O_CREATE|O_TRUNC, perm)
	if err != nil {
		return err
	}
	_, err = f.Write(data)
	if err1 := f.Close(); err1 != nil && err == nil {
		err = err1
	}
	return err
}

type dirEntry struct{ fi FileInfo }

func (d dirEntry) Name() string            { return d.fi.Name() }
func (d dirEntry) IsDir() bool             { return d.fi.IsDir() }
func (d dirEntry) Type() FileMode          { return d.fi.Mode().Type() }
func (d dirEntry) Info() (FileInfo, error) { return d.fi, nil }

// ReadDirInfos is shared with the ioutil shim.
func ReadDirInfos(name string) ([]FileInfo, error) {
	c := simrt.Call{Kind: "readdir", Path: name}
	be, t, ok := simrt.Enter(c)
	if !ok {
		return nil, refused("open", name)
	}
	if en, _, inj := simrt.InjectIO(t, c); inj {
		err := &PathError{Op: "open", Path: name, Err: en}
		simrt.Record(t, c, false, 0, 0, err)
		return nil, err
	}
	es, err := be.ReadDir(name)
	simrt.Record(t, c, false, 0, len(es), err)
	if err != nil {
		return nil, err
	}
	var res []FileInfo
	for _, e := range es {
		res = append(res, &fileInfo{e.Name, e.Size, e.IsDir, e.MTime})
	}
	return res, nil
}

func ReadDir(name string) ([]DirEntry, error) {
	fis, err := ReadDirInfos(name)
	if err != nil {
		return nil, err
	}
	var res []DirEntry
	for _, fi := range fis {
		res = append(res, dirEntry{fi})
	}
	return res, nil
}

// CreateTemp expands the last "*" of pattern with a value of the
// simulator's name stream; collision-free by retry.
func CreateTemp(dir, pattern string) (*File, error) {
	if dir == "" {
		dir = TempDir()
	}
	prefix, suffix := pattern, ""
	if i := strings.LastIndex(pattern, "*"); i >= 0 {
		prefix, suffix = pattern[:i], pattern[i+1:]
	}
	c := simrt.Call{Kind: "tempfile", Path: filepath.Join(dir, pattern)}
	be, t, ok := simrt.Enter(c)
	if !ok {
		return nil, refused("open", c.Path)
	}
	if en, _, inj := simrt.InjectIO(t, c); inj {
		err := &PathError{Op: "open", Path: c.Path, Err: en}
		simrt.Record(t, c, true, 0, 0, err)
		return nil, err
	}
	for try := 0; ; try++ {
		name := filepath.Join(dir, prefix+strconv.FormatUint(simrt.NameValue()%1000000000, 10)+suffix)
		h, err := be.OpenFile(name, O_RDWR|O_CREATE|O_EXCL, 0600)
		if err != nil && IsExist(err) && try < 10000 {
			continue
		}
		c.Path = name
		if err != nil {
			simrt.Record(t, c, true, 0, 0, err)
			return nil, err
		}
		f := &File{st: &simrt.FileState{H: h, Name: name}, name: name}
		simrt.RegisterFile(t, f.st)
		simrt.Record(t, c, true, h.Ino(), 0, nil)
		return f, nil
	}
}

func MkdirTemp(dir, pattern string) (string, error) {
	if dir == "" {
		dir = TempDir()
	}
	prefix, suffix := pattern, ""
	if i := strings.LastIndex(pattern, "*"); i >= 0 {
		prefix, suffix = pattern[:i], pattern[i+1:]
	}
	c := simrt.Call{Kind: "mkdir", Path: filepath.Join(dir, pattern)}
	be, t, ok := simrt.Enter(c)
	if !ok {
		return "", refused("mkdir", c.Path)
	}
	for {
		name := filepath.Join(dir, prefix+strconv.FormatUint(simrt.NameValue()%1000000000, 10)+suffix)
		if _, err := be.Stat(name); err == nil {
			continue
		}
		err := be.MkdirAll(name)
		c.Path = name
		simrt.Record(t, c, true, 0, 0, err)
		return name, err
	}
}

// ---------------------------------------------------------------- File methods

func (f *File) Name() string {
	if f == nil {
		panic("os: (*File).Name on nil")
	}
	return f.name
}

func (f *File) local(kind string) (simrt.Call, *simrt.Task, bool) {
	c := simrt.Call{Kind: kind, Path: f.name, Local: true}
	_, t, ok := simrt.Enter(c)
	return c, t, ok
}

func (f *File) wrap(op string, err error) error {
	if err == nil || err == simrt.Refused {
		return err
	}
	if _, ok := err.(*PathError); ok {
		return err
	}
	if err.Error() == "EOF" {
		return err
	}
	return &PathError{Op: op, Path: f.name, Err: err}
}

func (f *File) Write(b []byte) (int, error) {
	if f == nil {
		return 0, ErrInvalid
	}
	if f.dir {
		return 0, f.isDirErr("write")
	}
	c, t, ok := f.local("write")
	if !ok {
		return 0, refused("write", f.name)
	}
	var n int
	var err error
	if f.st.Closed {
		err = ErrClosed
	} else if en, part, inj := simrt.InjectIO(t, c); inj {
		// short write: a prefix reaches the file, then the error
		if k := int(part % int64(len(b)+1)); k > 0 && k < len(b) && part >= 0 {
			n, _ = f.st.H.Write(b[:k])
		}
		err = en
	} else {
		n, err = f.st.H.Write(b)
	}
	err = f.wrap("write", err)
	simrt.Record(t, c, true, f.ino(), n, err)
	return n, err
}

func (f *File) WriteString(s string) (int, error) { return f.Write([]byte(s)) }

func (f *File) ino() uint64 {
	if f.st.Closed {
		return 0
	}
	return f.st.H.Ino()
}

func (f *File) Read(b []byte) (int, error) {
	if f == nil {
		return 0, ErrInvalid
	}
	if f.dir {
		return 0, f.isDirErr("read")
	}
	c, t, ok := f.local("read")
	if !ok {
		return 0, refused("read", f.name)
	}
	var n int
	var err error
	if f.st.Closed {
		err = ErrClosed
	} else if en, _, inj := simrt.InjectIO(t, c); inj {
		err = en
	} else {
		n, err = f.st.H.Read(b)
		simrt.ReadCalls++
		simrt.ReadBytes += int64(n)
	}
	err = f.wrap("read", err)
	simrt.Record(t, c, false, f.ino(), n, err)
	return n, err
}

func (f *File) ReadAt(b []byte, off int64) (int, error) {
	if f == nil {
		return 0, ErrInvalid
	}
	if f.dir {
		return 0, f.isDirErr("read")
	}
	c, t, ok := f.local("readat")
	if !ok {
		return 0, refused("read", f.name)
	}
	var n int
	var err error
	if off < 0 {
		err = &PathError{Op: "readat", Path: f.name, Err: syscall.EINVAL}
	} else if len(b) == 0 {
		// as the real package: nothing to do, not even on a closed file
	} else if f.st.Closed {
		err = ErrClosed
	} else if en, _, inj := simrt.InjectIO(t, c); inj {
		err = en
	} else {
		n, err = f.st.H.ReadAt(b, off)
		simrt.ReadCalls++
		simrt.ReadBytes += int64(n)
	}
	err = f.wrap("read", err)
	simrt.Record(t, c, false, f.ino(), n, err)
	return n, err
}

func (f *File) Seek(off int64, whence int) (int64, error) {
	if f == nil {
		return 0, ErrInvalid
	}
	if f.dir {
		return 0, nil
	}
	c, t, ok := f.local("seek")
	if !ok {
		return 0, refused("seek", f.name)
	}
	var n int64
	var err error
	if f.st.Closed {
		err = ErrClosed
	} else {
		n, err = f.st.H.Seek(off, whence)
	}
	err = f.wrap("seek", err)
	simrt.Record(t, c, false, f.ino(), 0, err)
	return n, err
}

func (f *File) Truncate(sz int64) error {
	if f == nil {
		return ErrInvalid
	}
	if f.dir {
		return f.isDirErr("truncate")
	}
	c, t, ok := f.local("truncate")
	if !ok {
		return refused("truncate", f.name)
	}
	var err error
	if f.st.Closed {
		err = ErrClosed
	} else {
		err = f.st.H.Truncate(sz)
	}
	err = f.wrap("truncate", err)
	simrt.Record(t, c, true, f.ino(), 0, err)
	return err
}

func (f *File) Sync() error {
	if f == nil {
		return ErrInvalid
	}
	if f.dir {
		return nil
	}
	c, t, ok := f.local("sync")
	if !ok {
		return refused("sync", f.name)
	}
	var err error
	if f.st.Closed {
		err = f.wrap("sync", ErrClosed)
	}
	simrt.Record(t, c, false, f.ino(), 0, err)
	return err
}

func (f *File) Stat() (FileInfo, error) {
	if f == nil {
		return nil, ErrInvalid
	}
	if f.dir {
		return &fileInfo{filepath.Base(f.name), 0, true, 0}, nil
	}
	c, t, ok := f.local("fstat")
	if !ok {
		return nil, refused("stat", f.name)
	}
	var sz int64
	var err error
	if f.st.Closed {
		err = ErrClosed
	} else if en, _, inj := simrt.InjectIO(t, c); inj {
		err = en
	} else {
		sz, err = f.st.H.Size()
	}
	var mt int64
	if err == nil {
		mt = f.st.H.MTime()
	}
	err = f.wrap("stat", err)
	simrt.Record(t, c, false, f.ino(), 0, err)
	if err != nil {
		return nil, err
	}
	return &fileInfo{filepath.Base(f.name), sz, false, mt}, nil
}

func (f *File) Close() error {
	if f == nil {
		return ErrInvalid
	}
	if f.dir {
		if f.dirClosed {
			return &PathError{Op: "close", Path: f.name, Err: ErrClosed}
		}
		f.dirClosed = true
		return nil
	}
	c, t, ok := f.local("close")
	if !ok {
		return refused("close", f.name)
	}
	var err error
	ino := f.ino()
	if f.st.Closed {
		err = ErrClosed
	} else {
		f.st.Closed = true
		err = f.st.H.Close()
		if en, _, inj := simrt.InjectIO(t, c); inj && err == nil {
			// the descriptor is released, the data written so far stays
			err = en
		}
	}
	err = f.wrap("close", err)
	simrt.Record(t, c, false, ino, 0, err)
	return err
}

func (f *File) Fd() uintptr { return 3 }
