package harness

import (
	"fmt"
	"os"
	"path/filepath"
	"sort"
	"strings"

	"verifsim/reftable"
	"verifsim/simrt"
)

const DBDir = "/db"

// Version is one content of tables.list as seen by the disk model.
type Version struct {
	N       int
	Exists  bool
	Names   []string
	Raw     string
	Task    int
	Op      int
	OpKind  string
	Handle  int
	Seq     int
	Kind    string // init | append | replace | illegal | same
	Model   *State // expected state; nil once the model is unknown
	View    *State // observed overlay of the listed tables; nil if a table is invalid
	ViewErr string
	Tables  []*TableContent
}

type ownerInfo struct {
	Task, Op int
	Handle   int
	Kind     string
	Seq      int
}

// WrittenTable is what one invocation of a write closure handed to the
// writer.
type WrittenTable struct {
	Txn      int
	Base     uint64
	Refs     []Ref
	Logs     []Log
	Empty    bool
	Rejected bool   // the closure or writer returned an error
	Bad      string // the badness actually applied to this table ("" none)
}

// CallRec is the bookkeeping of one API call (op instance).
type CallRec struct {
	Task, Op, Handle int
	Kind             string
	Spec             *OpSpec
	InvSeq, RetSeq   int
	Err              error
	Class            string // ok | lockfail | error | panic | killed
	Panic            string
	Written          []WrittenTable
	Appends          int // append transitions attributed to this call
	Replaces         int
	SawLockEEXIST    bool
	LatestAtStart    int // latest version when the call was invoked
	HandleVerAtStart int
	StaleAtStart     bool
	Retry            bool
	AttemptsBefore   int
	AppendVersion    int    // index of the version this call's append created
	ListChanges      int    // versions of tables.list created by this call (independent of the model)
	OpenDigest       string // digest of the view right after a successful open (porcupine read output)
	TimeFaulted      bool   // a time fault hit this task while the call was executing
	IOFaulted        bool   // one of this call's filesystem calls failed by injection
	SelfStaleAtStart bool   // the handle was left behind its own commit by an earlier call that met an injected error
	tfBefore         int
	FailuresBefore   int
	Done             bool
	Events           int
}

// HandleState is the harness' knowledge about one Stack handle.
type HandleState struct {
	Idx       int
	Task      int
	St        *reftable.Stack
	Open      bool
	Auto      bool
	Version   int                // version the handle was last seen at (-1 unknown)
	Broken    bool               // a previous refresh failed; reads may legitimately fail until reopened
	Tr        *reftable.Addition // open Addition (between begin and commit/abort)
	TrOp      int                // op instance that opened it
	TrWritten []WrittenTable
	// SelfStale: a call through this handle changed tables.list and then
	// met an injected I/O error before it could refresh the handle.
	SelfStale bool
}

type World struct {
	Spec       *RunSpec
	Sim        *simrt.Sim
	Cfg        reftable.Config
	Sequential bool
	Versions   []*Version
	ModelOK    bool
	everListed map[string]bool
	tableCache map[[2]uint64]*TableContent
	Violations []Violation
	Probes     map[string]int
	Calls      []*CallRec
	curCall    map[int]*CallRec
	Handles    []*HandleState
	owner      map[string]ownerInfo
	Crashes    int
	lastRaw    string
	lastExists bool
	strat      *simrt.Random
	bias       map[string]bool
	// window probes
	inWindow          map[int]string // task -> window name currently open
	maxTables         int
	interleave        uint64 // hash of the projected shared-path event sequence
	stateSet          map[uint64]bool
	TimeFaults        bool
	StopOn            string // property whose first violation stops the run ("" = never stop early, "*" any)
	NameCheckRelevant bool
	DeepReads         bool
	Porcupine         bool
	CrashPoints       []string // class of the call each crash preceded
	CrashEnum         bool
	DeepRefsFor       bool
	IOFaults          int             // calls failed by injection
	IOFaultPoints     []string        // class of each injected failure (call kind, path class, errno, position bucket)
	excused           map[string]bool // paths whose unlink was the injected failure: they may stay behind
}

func NewWorld(spec *RunSpec, sim *simrt.Sim) *World {
	w := &World{Spec: spec, Sim: sim, ModelOK: true,
		everListed: map[string]bool{}, tableCache: map[[2]uint64]*TableContent{},
		Probes: map[string]int{}, curCall: map[int]*CallRec{}, owner: map[string]ownerInfo{},
		inWindow: map[int]string{}, stateSet: map[uint64]bool{}, bias: map[string]bool{}, excused: map[string]bool{}}
	w.Cfg = reftable.Config{
		Unaligned:        spec.Cfg.Unaligned,
		BlockSize:        spec.Cfg.BlockSize,
		SkipIndexObjects: spec.Cfg.SkipIndexObjects,
		RestartInterval:  spec.Cfg.Restart,
		SkipNameCheck:    spec.Cfg.SkipNameCheck,
		ExactLogMessage:  spec.Cfg.ExactLog,
	}
	if spec.Cfg.Hash == "s256" {
		w.Cfg.HashID = reftable.SHA256ID
	} else {
		w.Cfg.HashID = reftable.SHA1ID
	}
	for _, b := range spec.Sched.Bias {
		w.bias[b] = true
	}
	v := &Version{N: 0, Kind: "init", Task: -1, Handle: -1, Model: NewState(), View: NewState()}
	w.Versions = []*Version{v}
	sim.OnEvent = w.onEvent
	return w
}

func (w *World) Latest() *Version { return w.Versions[len(w.Versions)-1] }

func (w *World) probe(name string) { w.Probes[name]++ }

// porcupineOnly (VERIF_PORCUPINE_ONLY=1) is a sensitivity experiment: the
// disk-based C04 monitors are muted so that only the black-box
// linearizability check can report.
var porcupineOnly = os.Getenv("VERIF_PORCUPINE_ONLY") != ""

func (w *World) violate(prop, monitor, sig, detail string) {
	if porcupineOnly && prop == "C04" && monitor != "porcupine" {
		return
	}
	v := Violation{Property: prop, Monitor: monitor, Signature: prop + "/" + monitor + "/" + sig, Detail: detail, Seq: w.Sim.EventCount()}
	w.Violations = append(w.Violations, v)
	// C06: after a crash, a failing open, a broken list, a wrong final
	// state or a failing read is (also) a crash-consistency violation.
	if w.CrashEnum && w.Crashes > 0 && (prop == "C04" || prop == "C05" || prop == "C10") {
		w.Violations = append(w.Violations, Violation{Property: "C06", Monitor: monitor, Signature: "C06/" + monitor + "/" + sig, Detail: "after a crash: " + detail, Seq: v.Seq})
		if w.StopOn == "C06" {
			w.Sim.Stop = true
		}
	}
	if w.StopOn == "*" || w.StopOn == prop {
		w.Sim.Stop = true
	}
}

func (w *World) hasViolation(prop string) bool {
	for _, v := range w.Violations {
		if v.Property == prop {
			return true
		}
	}
	return false
}

// concProp attributes a data mismatch: in sequential histories to the
// sequential property given, in concurrent ones to C04.
func (w *World) concProp(seq string) string {
	if w.Sequential {
		return seq
	}
	return "C04"
}

func listPath() string { return filepath.Join(DBDir, "tables.list") }

func parseList(b []byte) []string {
	var res []string
	for _, l := range strings.Split(string(b), "\n") {
		if l != "" {
			res = append(res, l)
		}
	}
	return res
}

func isLock(p string) bool  { return strings.HasSuffix(p, ".lock") }
func isTemp(p string) bool  { return strings.HasSuffix(p, ".reftmp") }
func isTable(p string) bool { return strings.HasSuffix(p, ".ref") }

func pathClassOf(p string) string {
	b := filepath.Base(p)
	switch {
	case b == "tables.list":
		return "list"
	case b == "tables.list.lock":
		return "listlock"
	case isLock(b):
		return "tablelock"
	case isTemp(b):
		return "temp"
	case isTable(b):
		return "table"
	}
	return "other"
}

// loadTable reads (with cache) the table currently named `name`.
func (w *World) loadTable(name string) *TableContent {
	p := filepath.Join(DBDir, name)
	fi, err := w.Sim.FS.Stat(p)
	if err != nil {
		return &TableContent{Name: name, Err: fmt.Errorf("missing: %v", simrt.ErrClass(err))}
	}
	key := [2]uint64{fi.Ino, fi.Gen}
	if tc, ok := w.tableCache[key]; ok && tc.Bytes == int(fi.Size) {
		if tc.Name != name {
			c := *tc
			c.Name = name
			return &c
		}
		return tc
	}
	b, err := w.Sim.FS.ReadFile(p)
	if err != nil {
		return &TableContent{Name: name, Err: fmt.Errorf("unreadable: %v", err)}
	}
	tc := ReadTableBytes(name, b)
	w.tableCache[key] = tc
	return tc
}

func (w *World) curCallOf(task int) *CallRec { return w.curCall[task] }

// ---------------------------------------------------------------- event hook

func (w *World) onEvent(ev *simrt.Event) {
	if ev.Kind == "CRASH" {
		w.Crashes++
		f := strings.SplitN(ev.Path, " ", 2)
		cp := f[0]
		if len(f) > 1 {
			cp += ":" + pathClassOf(f[1])
		}
		if cr := w.curCall[ev.Task]; cr != nil {
			cp = fmt.Sprintf("%s#%d", cp, cr.Events/8)
		}
		w.CrashPoints = append(w.CrashPoints, cp)
		w.checkListIntegrity(ev, true)
		return
	}
	cr := w.curCall[ev.Task]
	if cr != nil {
		cr.Events++
	}
	ok := ev.Err == ""
	cls := pathClassOf(ev.Path)
	if ev.Inj {
		w.IOFaults++
		fp := fmt.Sprintf("%s:%s:%s", ev.Kind, cls, ev.Err)
		if cr != nil {
			cr.IOFaulted = true
			fp = fmt.Sprintf("%s/%s#%d", cr.Kind, fp, cr.Events/8)
		}
		w.IOFaultPoints = append(w.IOFaultPoints, fp)
		w.probe("ioerr-at-" + ev.Kind + ":" + cls)
		if ev.Kind == "remove" {
			w.excused[ev.Path] = true
		}
	}
	// interleaving hash over shared-path events projected to (task, kind, class)
	switch ev.Kind {
	case "write", "readat", "read", "fstat", "close", "seek", "sync", "readblock", "sleep":
		// descriptor-local: not part of the shared-path projection
	default:
		w.interleave = simrt.HashStr(simrt.Mix64(w.interleave^uint64(ev.Task+1)), ev.Kind+":"+cls+":"+ev.Err)
	}
	if ev.Err == "EEXIST" && (cls == "listlock" || cls == "tablelock") && cr != nil {
		cr.SawLockEEXIST = true
		w.probe("lock-contention-" + cls)
	}
	switch ev.Kind {
	case "createx", "create", "tempfile":
		if ok {
			h := -1
			if cr != nil {
				h = cr.Handle
			}
			w.owner[ev.Path] = ownerInfo{Task: ev.Task, Op: ev.Op, Handle: h, Kind: ev.Kind, Seq: ev.Seq}
		}
	case "remove", "rename":
		if ok {
			w.checkLockTenure(ev, cls)
			w.checkListedRemoved(ev)
			w.checkLiveFileRemoved(ev, cls)
			if ev.Kind == "rename" {
				if o, has := w.owner[ev.Path]; has {
					w.owner[ev.Path2] = o
				} else {
					delete(w.owner, ev.Path2)
				}
			}
			delete(w.owner, ev.Path)
		}
	}
	w.windowProbes(ev, cls, ok)
	if ev.Mut {
		w.detectVersion(ev)
		if ev.Kind != "write" || cls == "list" || cls == "table" {
			w.checkListIntegrity(ev, false)
		}
	}
	if w.strat != nil && ok {
		switch {
		case ev.Kind == "readfile" && cls == "list":
			// a reloading task has just read the list: let the others
			// change it before the tables are opened
			if w.bias["after-list-read"] && w.biasRng(ev) {
				w.strat.ForceSwitch = true
			}
		case ev.Kind == "remove" && (cls == "listlock"):
			if w.bias["after-lock-remove"] {
				w.strat.ForceSwitch = true
			}
		case ev.Kind == "rename" && pathClassOf(ev.Path2) == "list":
			if w.bias["after-list-rename"] {
				w.strat.ForceSwitch = true
			}
		case ev.Kind == "rename" && pathClassOf(ev.Path2) == "table":
			if w.bias["after-table-rename"] {
				w.strat.ForceSwitch = true
			}
		case ev.Kind == "createx" && cls == "listlock":
			if w.bias["after-lock-create"] {
				w.strat.ForceSwitch = true
			}
		}
	}
}

// checkLockTenure: a *.lock path may only be removed or renamed by the op
// instance that created its current incarnation (C08).
func (w *World) checkLockTenure(ev *simrt.Event, cls string) {
	if cls != "listlock" && cls != "tablelock" {
		return
	}
	o, has := w.owner[ev.Path]
	if !has {
		return
	}
	if o.Task == ev.Task && o.Op != ev.Op && o.Handle >= 0 && o.Handle < len(w.Handles) {
		// the lock of an Addition that the same handle opened in an
		// earlier call and is committing or abandoning now
		if hs := w.Handles[o.Handle]; hs.TrOp == o.Op && hs.TrOp != 0 {
			if cr := w.curCall[ev.Task]; cr != nil && cr.Handle == o.Handle {
				return
			}
		}
	}
	if o.Task != ev.Task || o.Op != ev.Op {
		kind := "?"
		if cr := w.curCall[ev.Task]; cr != nil {
			kind = cr.Kind
		}
		w.violate("C08", "lock-tenure", fmt.Sprintf("%s-by-nonowner/%s/%s/%s", ev.Kind, cls, kind, ev.Caller),
			fmt.Sprintf("%s of %s by task %d op %d (%s); created by task %d op %d", ev.Kind, ev.Path, ev.Task, ev.Op, ev.Caller, o.Task, o.Op))
	}
}

// sparseObserve: see the handle-view call site. Never in sequential
// histories, whose oracles are defined per operation.
func (w *World) sparseObserve() bool {
	return !w.Sequential && simrt.Hash4(w.Spec.Seed, "sparse-observe", 0, 0)%3 == 0
}

// checkLiveFileRemoved (C16): "Close and Clean remove only stale files". A
// file is in use, not stale, while the operation that created it is still
// running in a live process, or while the Addition that created it is open.
// Close or Clean of ANOTHER process removing or renaming such a file
// (a compaction's temporary table or table locks, an open Addition's
// uncommitted tables) is a violation, whatever becomes of the victim.
func (w *World) checkLiveFileRemoved(ev *simrt.Event, cls string) {
	cr := w.curCall[ev.Task]
	if cr == nil || (cr.Kind != OpClean && cr.Kind != OpClose) {
		return
	}
	o, has := w.owner[ev.Path]
	if !has || o.Task == ev.Task || o.Task < 0 || o.Task >= len(w.Sim.Tasks) {
		return
	}
	if t := w.Sim.Tasks[o.Task]; t.Crashed || t.Killed {
		return
	}
	if cls == "table" && w.everListed[filepath.Base(ev.Path)] {
		// a table that tables.list has named is committed state, not a
		// file its creator is still working on: once a later version
		// drops it, it is garbage for everybody (a first version of this
		// monitor flagged Close removing the inputs of a compaction whose
		// operation - the Add that had created one of them - was still
		// deleting them itself: false alarm, corrected before registering)
		return
	}
	live := false
	if oc := w.curCall[o.Task]; oc != nil && oc.Op == o.Op && !oc.Done {
		live = true
	}
	if o.Handle >= 0 && o.Handle < len(w.Handles) {
		if hs := w.Handles[o.Handle]; hs.Tr != nil && hs.TrOp == o.Op && hs.TrOp != 0 {
			live = true
		}
	}
	if !live {
		return
	}
	w.violate("C16", "live-file-removed", fmt.Sprintf("%s/%s/%s", cr.Kind, cls, ev.Caller),
		fmt.Sprintf("%s of %s by task %d during %s (%s): created by task %d in an operation that is still running", ev.Kind, ev.Path, ev.Task, cr.Kind, ev.Caller, o.Task))
}

// checkListedRemoved: no garbage-collection step ever removes a table that
// the list names (C05; C16 too when issued by Close/Clean).
func (w *World) checkListedRemoved(ev *simrt.Event) {
	if pathClassOf(ev.Path) != "table" || filepath.Dir(ev.Path) != DBDir {
		return
	}
	b, err := w.Sim.FS.ReadFile(listPath())
	if err != nil {
		return
	}
	base := filepath.Base(ev.Path)
	for _, n := range parseList(b) {
		if n == base {
			kind := "?"
			if cr := w.curCall[ev.Task]; cr != nil {
				kind = cr.Kind
			}
			prop := "C05"
			w.violate(prop, "listed-table-removed", fmt.Sprintf("%s/%s/%s", ev.Kind, kind, ev.Caller),
				fmt.Sprintf("%s of listed table %s by task %d (%s in %s)", ev.Kind, base, ev.Task, ev.Caller, kind))
			// issued by Close or Clean themselves or by anything they call (the operation kind decides, not the innermost function)
			if strings.HasPrefix(ev.Caller, "(*Stack).Close") || strings.HasPrefix(ev.Caller, "(*Stack).Clean") || kind == OpClean || kind == OpClose {
				w.violate("C16", "listed-table-removed", fmt.Sprintf("%s/%s/%s", ev.Kind, kind, ev.Caller),
					fmt.Sprintf("%s of listed table %s by %s", ev.Kind, base, ev.Caller))
			}
		}
	}
}

// checkListIntegrity: every listed table exists, is a complete valid table
// of the stack's hash type, ranges strictly increasing (C05).
func (w *World) checkListIntegrity(ev *simrt.Event, deep bool) {
	b, err := w.Sim.FS.ReadFile(listPath())
	if err != nil {
		return
	}
	names := parseList(b)
	var lastMax uint64
	for i, n := range names {
		tc := w.loadTable(n)
		where := ev.Kind + "/" + ev.Caller
		if tc.Err != nil {
			what := "invalid"
			if strings.HasPrefix(tc.Err.Error(), "missing") {
				what = "missing"
			}
			kind := "?"
			if cr := w.curCall[ev.Task]; cr != nil {
				kind = cr.Kind
			}
			w.violate("C05", "list-integrity", fmt.Sprintf("%s/%s/%s", what, kind, where),
				fmt.Sprintf("after %s: listed table %s: %v", ev.String(), n, tc.Err))
			return
		}
		if tc.Info.Hash != w.Spec.Cfg.Hash && !(w.Spec.Cfg.Hash == "" && tc.Info.Hash == "sha1") {
			w.violate("C05", "list-integrity", "hash-id/"+where, fmt.Sprintf("listed table %s has hash id %s want %s", n, tc.Info.Hash, w.Spec.Cfg.Hash))
			return
		}
		if i > 0 && tc.Info.Min <= lastMax {
			w.violate("C05", "list-integrity", "range-order/"+where, fmt.Sprintf("listed table %s has min %d, predecessor max %d", n, tc.Info.Min, lastMax))
			return
		}
		lastMax = tc.Info.Max
	}
	if deep {
		w.deepOpenCheck(ev)
	}
}

// deepOpenCheck: a real NewStack on the directory must succeed (observer
// mode; a fresh NewStack performs no mutation).
func (w *World) deepOpenCheck(ev *simrt.Event) {
	var st *reftable.Stack
	var err error
	func() {
		defer func() {
			if r := recover(); r != nil {
				err = fmt.Errorf("panic: %v", r)
			}
		}()
		st, err = reftable.NewStack(DBDir, w.Cfg)
	}()
	if err != nil {
		w.violate("C05", "open-fails", "after/"+ev.Kind, fmt.Sprintf("NewStack after %s: %v", ev.String(), err))
		return
	}
	closeQuiet(st)
}

// closeQuiet releases a handle opened by the observer without letting
// Close garbage-collect anything.
func closeQuiet(st *reftable.Stack) {
	for _, r := range reftable.SimReaders(st) {
		r.Close()
	}
}

func contiguousReplace(old, nw []string) (i, j int, r []string, ok bool) {
	// longest common prefix / suffix
	i = 0
	for i < len(old) && i < len(nw) && old[i] == nw[i] {
		i++
	}
	so, sn := len(old), len(nw)
	for so > i && sn > i && old[so-1] == nw[sn-1] {
		so--
		sn--
	}
	return i, so, nw[i:sn], true
}

// detectVersion notices every change of what tables.list holds and
// classifies the transition by content alone (DESIGN 4.1).
func (w *World) detectVersion(ev *simrt.Event) {
	b, err := w.Sim.FS.ReadFile(listPath())
	exists := err == nil
	raw := string(b)
	if exists == w.lastExists && raw == w.lastRaw {
		return
	}
	prev := w.Latest()
	w.lastExists, w.lastRaw = exists, raw
	names := parseList(b)
	cr := w.curCall[ev.Task]
	v := &Version{N: len(w.Versions), Exists: exists, Names: names, Raw: raw, Task: ev.Task, Op: ev.Op, Seq: ev.Seq, Handle: -1}
	if cr != nil {
		v.OpKind = cr.Kind
		v.Handle = cr.Handle
		cr.ListChanges++
	}
	w.Versions = append(w.Versions, v)
	if len(names) > w.maxTables {
		w.maxTables = len(names)
	}
	viaRename := ev.Kind == "rename" && pathClassOf(ev.Path2) == "list" && pathClassOf(ev.Path) == "listlock"
	old := prev.Names
	// classify
	switch {
	case !exists || !viaRename:
		v.Kind = "illegal"
		w.violate("C04", "illegal-transition", fmt.Sprintf("not-by-rename/%s/%s", ev.Kind, ev.Caller),
			fmt.Sprintf("tables.list changed by %s", ev.String()))
	case len(names) > len(old) && equalStrings(names[:len(old)], old) && allNew(w.everListed, names[len(old):]):
		v.Kind = "append"
	case equalStrings(names, old):
		v.Kind = "same"
	default:
		i, j, r, _ := contiguousReplace(old, names)
		if i < j && len(r) <= 1 && allNew(w.everListed, r) {
			v.Kind = "replace"
		} else {
			v.Kind = "illegal"
			w.violate("C04", "illegal-transition", fmt.Sprintf("shape/%s/%s", v.OpKind, ev.Caller),
				fmt.Sprintf("tables.list %v -> %v by %s is neither an append of fresh tables nor a replacement of a contiguous range by at most one fresh table", old, names, ev.String()))
		}
	}
	for _, n := range names {
		w.everListed[n] = true
	}
	// observe
	v.Tables = make([]*TableContent, len(names))
	viewOK := true
	for i, n := range names {
		tc := w.loadTable(n)
		v.Tables[i] = tc
		if tc.Err != nil {
			viewOK = false
			v.ViewErr = fmt.Sprintf("%s: %v", n, tc.Err)
		}
	}
	if viewOK {
		r, l := Overlay(v.Tables, false)
		v.View = StateOf(r, l)
	}
	// model
	if !w.ModelOK || prev.Model == nil {
		w.ModelOK = false
	} else {
		switch v.Kind {
		case "append":
			w.modelAppend(prev, v, cr, ev)
		case "replace":
			w.modelReplace(prev, v, cr, ev)
		case "same":
			v.Model = prev.Model
		default:
			w.ModelOK = false
		}
	}
	if w.ModelOK && v.Model != nil && v.View != nil {
		if d := v.Model.Diff(v.View); d != "" {
			prop := "C04"
			mon := "lost-or-phantom-update"
			if w.Sequential && v.Kind == "replace" {
				prop = "C07"
				mon = "compaction-changed-view"
				if v.OpKind == OpExpire {
					prop = "C13"
					mon = "expiry-mismatch"
				}
			}
			w.violate(prop, mon, fmt.Sprintf("%s/%s", v.Kind, v.OpKind),
				fmt.Sprintf("version %d (%s by task %d %s): committed state differs from model: %s", v.N, v.Kind, v.Task, v.OpKind, d))
			w.ModelOK = false
		}
	}
	if v.View != nil {
		w.deepOpenCheck(ev)
	}
	// C17 compaction-shape
	if v.Kind == "replace" && cr != nil && (cr.Kind == OpAdd || cr.Kind == OpAddMulti || cr.Kind == OpAutoCompact) {
		i, j, _, _ := contiguousReplace(old, names)
		if j-i < 2 || len(names) >= len(old) {
			w.violate("C17", "compaction-shape", cr.Kind, fmt.Sprintf("auto-compaction replaced range [%d,%d) of %d tables, result has %d tables", i, j, len(old), len(names)))
		}
		w.probe("auto-compaction-commit")
	}
}

func equalStrings(a, b []string) bool {
	if len(a) != len(b) {
		return false
	}
	for i := range a {
		if a[i] != b[i] {
			return false
		}
	}
	return true
}

func allNew(ever map[string]bool, names []string) bool {
	for _, n := range names {
		if ever[n] {
			return false
		}
	}
	return true
}

func (w *World) modelAppend(prev, v *Version, cr *CallRec, ev *simrt.Event) {
	added := v.Names[len(prev.Names):]
	if cr == nil || (cr.Kind != OpAdd && cr.Kind != OpAddMulti && cr.Kind != OpCommit) {
		w.violate("C04", "illegal-transition", "append-without-transaction/"+v.OpKind, fmt.Sprintf("append of %v by %s", added, ev.String()))
		w.ModelOK = false
		return
	}
	var produced []WrittenTable
	for _, wt := range cr.Written {
		if !wt.Empty && !wt.Rejected {
			produced = append(produced, wt)
		}
	}
	if len(produced) != len(added) {
		w.violate("C04", "phantom-or-missing-table", cr.Kind, fmt.Sprintf("call wrote %d non-empty tables but the commit appended %v", len(produced), added))
		w.ModelOK = false
		return
	}
	m := prev.Model.Clone()
	var tabs [][]Ref
	for k, wt := range produced {
		tabs = append(tabs, wt.Refs)
		wantR := refStrings(wt.Refs)
		wantL := logStrings(NormaliseLogs(wt.Logs, w.Spec.Cfg))
		tc := v.Tables[len(prev.Names)+k]
		if tc.Err == nil {
			if d := diffLists(wantR, refStrings(tc.Refs)); d != "" {
				w.violate("C04", "altered-update", "refs/"+cr.Kind, fmt.Sprintf("table %s does not hold the transaction's refs: %s", tc.Name, d))
				w.ModelOK = false
			} else if d := diffLists(wantL, logStrings(tc.Logs)); d != "" {
				w.violate("C04", "altered-update", "logs/"+cr.Kind, fmt.Sprintf("table %s does not hold the transaction's log entries: %s", tc.Name, d))
				w.ModelOK = false
			}
			if tc.Info.Min != wt.Base {
				w.violate("C04", "altered-update", "limits/"+cr.Kind, fmt.Sprintf("table %s has min update index %d, transaction wrote at %d", tc.Name, tc.Info.Min, wt.Base))
			}
		}
		m.Apply(wt.Refs, NormaliseLogs(wt.Logs, w.Spec.Cfg))
	}
	// C12: accepted => legal
	if !w.Spec.Cfg.SkipNameCheck {
		if ok, why := LegalTxn(prev.Model, tabs); !ok {
			sig := "accepted-illegal/" + cr.Kind
			w.violate("C12", "name-conflict", sig, fmt.Sprintf("transaction committed although it creates a name conflict (%s)", why))
		}
	}
	v.Model = m
	cr.Appends++
	cr.AppendVersion = v.N
}

func (w *World) modelReplace(prev, v *Version, cr *CallRec, ev *simrt.Event) {
	kind := ""
	if cr != nil {
		kind = cr.Kind
	}
	switch kind {
	case OpAdd, OpAddMulti, OpAutoCompact, OpCompactAll, OpExpire, OpCompactRange:
	default:
		w.violate("C04", "illegal-transition", "replace-by/"+kind, fmt.Sprintf("range replacement by %s", ev.String()))
		w.ModelOK = false
		return
	}
	cr.Replaces++
	w.probe("compaction-commit")
	if kind == OpExpire {
		w.probe("expire-commit")
	}
	m := prev.Model
	if kind == OpExpire && cr.Spec != nil && cr.Spec.Exp != nil {
		m = prev.Model.Clone()
		m.Expire(cr.Spec.Exp)
	}
	v.Model = m
	// limits of output = min of first .. max of last
	i, j, r, _ := contiguousReplace(prev.Names, v.Names)
	if len(r) == 1 && i < j && j <= len(prev.Tables) {
		nt := v.Tables[i]
		a, b := prev.Tables[i], prev.Tables[j-1]
		if nt.Err == nil && a.Err == nil && b.Err == nil {
			if nt.Info.Min != a.Info.Min || nt.Info.Max != b.Info.Max {
				w.violate(w.concProp("C07"), "compaction-limits", kind, fmt.Sprintf("compacted table covers [%d,%d], inputs cover [%d,%d]", nt.Info.Min, nt.Info.Max, a.Info.Min, b.Info.Max))
			}
		}
	}
	if len(r) == 0 {
		w.probe("compaction-to-empty")
	}
	if i > 0 {
		w.probe("compaction-not-from-bottom")
	}
}

// ---------------------------------------------------------------- window probes

func (w *World) windowProbes(ev *simrt.Event, cls string, ok bool) {
	cr := w.curCall[ev.Task]
	if cr == nil {
		return
	}
	// W1: compaction's unlocked window: opens when compactRange removes
	// tables.list.lock, closes when it re-creates it (or the call ends).
	if ev.Kind == "remove" && cls == "listlock" && ok && strings.Contains(ev.Caller, "compactRange") {
		w.inWindow[ev.Task] = "W1"
	}
	if ev.Kind == "createx" && cls == "listlock" && strings.Contains(ev.Caller, "compactRange") && w.inWindow[ev.Task] == "W1" {
		delete(w.inWindow, ev.Task)
		if !ok {
			w.probe("W1-relock-failed")
		}
	}
	for t, win := range w.inWindow {
		if t == ev.Task {
			continue
		}
		if win == "W1" {
			w.probe("W1-other-task-ran")
			if ev.Kind == "rename" && pathClassOf(ev.Path2) == "list" && ok {
				w.probe("W1-other-committed")
			}
			if ev.Kind == "createx" && cls == "listlock" && ok {
				w.probe("W1-other-locked")
			}
		}
	}
	if ev.Err == "ENOENT" && ev.Kind == "open" && cls == "table" {
		w.probe("reload-enoent")
	}
}

// stateHash: distinct (list length, path classes present, locks held, staleness vector).
func (w *World) noteState() {
	names, _ := w.Sim.FS.ReadDir(DBDir)
	var cl []string
	for _, e := range names {
		cl = append(cl, pathClassOf(e.Name))
	}
	sort.Strings(cl)
	h := simrt.HashStr(uint64(len(w.Latest().Names)), strings.Join(cl, ","))
	for _, hs := range w.Handles {
		x := uint64(2)
		if hs.Open {
			x = 0
			if hs.Version != w.Latest().N {
				x = 1
			}
		}
		h = simrt.Mix64(h ^ x)
	}
	w.stateSet[h] = true
}

// biasRng thins a bias out deterministically (every other occurrence,
// addressed by the event sequence number, no PRNG draw).
func (w *World) biasRng(ev *simrt.Event) bool { return simrt.Mix64(w.Spec.Seed^uint64(ev.Seq))&1 == 0 }
