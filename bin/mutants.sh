#!/bin/sh
# bin/mutants.sh: hand-written property-breaking patches (mutants/*.diff, all compile and pass the pinned suite)
# against the checks of the properties they target. Prints the kill matrix. /repo is not touched (VERIF_REPO).
cd "$(dirname "$0")/.."
V="$(pwd)"
for d in mutants/*.diff; do
  name=$(basename $d .diff)
  targets=$(python3 -c "import json;print(' '.join(json.load(open('mutants/targets.json')).get('$name',{}).get('targets',[])))")
  W=$(mktemp -d /var/tmp/mutant.XXXXXX)
  git -C /repo worktree add -q --detach "$W/wt" HEAD || continue
  if git -C "$W/wt" apply "$V/$d" 2>/dev/null; then
    for c in $targets; do
      [ "$c" = "-" ] && { echo "$name - (no property targeted; expected to survive)"; continue; }
      out=$(VERIF_OUT="$W/vout" VERIF_REPO="$W/wt" bin/check $c --tier quick 2>&1); ec=$?
      sig=$(echo "$out" | grep -E "^C[0-9]+/" | head -1 | cut -c1-110)
      r=SURVIVED; [ $ec -eq 1 ] && r=KILLED; [ $ec -eq 2 ] && r=INFRA
      echo "$name $c $r $sig"
    done
  else
    echo "$name - patch does not apply to /repo HEAD"
  fi
  git -C /repo worktree remove --force "$W/wt"; rm -rf "$W"
done
