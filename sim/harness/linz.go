package harness

import (
	"fmt"
	"time"

	"github.com/anishathalye/porcupine"

	"verifsim/simrt"
)

// Black-box linearizability cross-check of C04 (DESIGN §6 C04 iii): the
// recorded call history - invoke/return stamped with event sequence
// numbers - is checked with porcupine against the sequential model. It
// does not use the disk monitor at all, so a mistake in the ground-truth
// machinery cannot hide a lost update.

type linzIn struct {
	Kind   string // add | expire | read
	Tables []WrittenTable
	Exp    *ExpSpec
	Cfg    CfgSpec
}

type linzOut struct {
	Class  string // ok | fail | maybe
	Digest string
}

type linzState struct {
	st     *State
	digest string
}

func mkLinzState(s *State) *linzState { return &linzState{st: s, digest: s.Digest()} }

func linzModel() porcupine.Model {
	nm := porcupine.NondeterministicModel{
		Init: func() []interface{} { return []interface{}{mkLinzState(NewState())} },
		Step: func(state interface{}, input interface{}, output interface{}) []interface{} {
			s := state.(*linzState)
			in := input.(linzIn)
			out := output.(linzOut)
			apply := func() *linzState {
				n := s.st.Clone()
				switch in.Kind {
				case "add":
					for _, wt := range in.Tables {
						if !wt.Empty && !wt.Rejected {
							n.Apply(wt.Refs, NormaliseLogs(wt.Logs, in.Cfg))
						}
					}
				case "expire":
					n.Expire(in.Exp)
				}
				return mkLinzState(n)
			}
			switch in.Kind {
			case "read":
				if out.Digest == s.digest {
					return []interface{}{s}
				}
				return nil
			case "add":
				switch out.Class {
				case "ok":
					return []interface{}{apply()}
				case "fail":
					return []interface{}{s}
				default:
					return []interface{}{s, apply()}
				}
			case "expire":
				// CompactAll reports success also when it lost a lock race
				// and did nothing.
				if out.Class == "fail" {
					return []interface{}{s}
				}
				return []interface{}{s, apply()}
			}
			return nil
		},
		Equal: func(a, b interface{}) bool { return a.(*linzState).digest == b.(*linzState).digest },
		Hash:  func(a interface{}) uint64 { return simrt.HashStr(11, a.(*linzState).digest) },
	}
	return nm.ToModel()
}

// checkLinearizable builds the history of a finished run and checks it.
func (w *World) checkLinearizable() {
	var ops []porcupine.Operation
	for _, cr := range w.Calls {
		if !cr.Done && cr.Class != "killed" {
			continue
		}
		var in linzIn
		var out linzOut
		switch cr.Kind {
		case OpAdd, OpAddMulti, OpCommit:
			in = linzIn{Kind: "add", Tables: cr.Written, Cfg: w.Spec.Cfg}
			switch {
			case cr.Class == "ok":
				out.Class = "ok"
			case cr.Class == "killed" || cr.Class == "panic" || cr.TimeFaulted:
				out.Class = "maybe"
			default:
				out.Class = "fail"
			}
		case OpExpire:
			in = linzIn{Kind: "expire", Exp: cr.Spec.Exp}
			out.Class = "maybe"
			if cr.Class == "lockfail" {
				out.Class = "fail"
			}
		case OpOpen, OpReopen:
			if cr.Class != "ok" || cr.OpenDigest == "" {
				continue
			}
			in = linzIn{Kind: "read"}
			out.Digest = cr.OpenDigest
		default:
			continue
		}
		ret := cr.RetSeq
		if cr.Class == "killed" {
			// an interrupted call may take effect at any later time
			ret = w.Sim.EventCount() + 1
		}
		ops = append(ops, porcupine.Operation{ClientId: cr.Task, Input: in, Call: int64(2 * cr.InvSeq), Output: out, Return: int64(2*ret + 1)})
	}
	if len(ops) == 0 || len(ops) > 60 {
		w.probe("porcupine-skipped")
		return
	}
	switch porcupine.CheckOperationsTimeout(linzModel(), ops, 30*time.Second) {
	case porcupine.Ok:
		w.probe("porcupine-ok")
	case porcupine.Illegal:
		w.probe("porcupine-illegal")
		w.violate("C04", "porcupine", "illegal-history", fmt.Sprintf("the recorded history of %d calls (Add results, expiry, fresh opens) is not linearizable against the sequential model", len(ops)))
	default:
		w.probe("porcupine-unknown")
	}
}
