package harness

func Main(args []string) int { return 2 }
