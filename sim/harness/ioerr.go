package harness

import (
	"fmt"

	"verifsim/simrt"
)

// S-IOERR: I/O errors (EIO, ENOSPC with a short write, EMFILE, EACCES,
// EDQUOT) injected at single filesystem calls of running operations. The
// process is not killed: the library sees the error and must cope.
//
// What the properties still demand when a call fails (DESIGN 12.6):
//   - C05: tables.list names complete, valid, ordered tables at every
//     instant - an ignored write/close error must never reach the list;
//   - C04: success is returned only for a committed transaction; every
//     list transition is a legal append/replace holding exactly the
//     transaction's records (nothing lost or altered by a compaction that
//     could not read its input);
//   - C10: the handle keeps showing one committed version and reads through
//     it return that version's data;
//   - C16: the failed operation releases its lock and temporary files.
//
// Deliberate, narrow relaxations for the one call that met the injected
// error: it may report failure (also after its commit point), and a path
// whose unlink itself was the failed call may stay behind.

// GenIOErrEnum: the S-CRASH-ENUM base history (prefix, target operation,
// stale survivor, fresh process); the target process keeps using its handle
// after the operation that met the error.
func GenIOErrEnum(prop string, seed uint64) *RunSpec {
	spec := genCrashEnumWith(prop, seed, multiBlock)
	spec.Scenario = "S-IOERR"
	r := simrt.NewRng(seed, "ioerr-follow")
	g := &genCtx{r: r, p: &Profile{RefsPerTxn: [2]int{1, 2}, LogsPerTxn: [2]int{0, 1}, Logs: true}, names: defaultNames, nextID: 7000, cfg: spec.Cfg, timeLo: 100}
	ops := spec.Tasks[0].Ops
	last := ops[len(ops)-1].Kind
	if last != OpClose {
		follow := []OpSpec{{Kind: OpRead, H: 0}}
		tx := g.txn()
		tx.Bad = ""
		follow = append(follow, OpSpec{Kind: OpAdd, H: 0, Txns: []TxnSpec{tx}})
		if r.Bool(0.4) {
			follow = append(follow, OpSpec{Kind: OpCompactAll, H: 0})
		}
		follow = append(follow, OpSpec{Kind: OpRead, H: 0}, OpSpec{Kind: OpClose, H: 0})
		spec.Tasks[0].Ops = append(ops, follow...)
	}
	return spec
}

// multiBlock makes tables that span several blocks frequent (small blocks,
// wider alphabets, more records per transaction): an error can then hit the
// read or write of a table's second or later block.
func multiBlock(p *Profile) {
	p.SmallBlocks = true
	p.ManyNames = 40
	if p.RefsPerTxn[1] < 8 {
		p.RefsPerTxn[1] = 8
	}
}

func ioFault(seed uint64, task, step int) simrt.Fault {
	return simrt.Fault{Kind: simrt.FaultIOErr, Task: task, Step: step,
		Arg:  int64(simrt.Hash4(seed, "ioerr-errno", uint64(task), uint64(step)) % 1000),
		Arg2: int64(simrt.Hash4(seed, "ioerr-part", uint64(task), uint64(step)) % 100000)}
}

// ExecIOErrEnum runs the base spec once to count the target process' K
// filesystem calls, then once per call with that call failing.
func ExecIOErrEnum(base *RunSpec, opts RunOpts) *RunResult {
	res := Execute(base, opts)
	if len(res.Violations) > 0 && firstOf(res, opts.StopOn) != nil {
		res.Sub = 1
		return res
	}
	k := 0
	if len(res.TaskSteps) > 1 {
		k = res.TaskSteps[1]
	}
	total := res
	total.Sub = 1
	target := base.Tasks[0].Ops[0].Kind
	for step := 1; step <= k; step++ {
		c := cloneSpec(base)
		c.Faults = []simrt.Fault{ioFault(base.Seed, 1, step)}
		r := Execute(c, opts)
		total.Sub++
		total.Steps += r.Steps
		total.Events += r.Events
		total.SimTimeNS += r.SimTimeNS
		for p, n := range r.Probes {
			total.Probes[p] += n
		}
		for p, n := range r.Counters {
			total.Counters[p] += n
		}
		for p, n := range r.CallCounts {
			total.CallCounts[p] += n
		}
		for _, fp := range r.World.IOFaultPoints {
			total.Keys = append(total.Keys, simrt.HashStr(0, target+"|"+fp))
		}
		if firstOf(r, opts.StopOn) != nil {
			r.Sub = total.Sub
			r.Keys = total.Keys
			r.Probes = total.Probes
			return r
		}
		for _, v := range r.Violations {
			total.Violations = append(total.Violations, v)
		}
	}
	total.Probes[fmt.Sprintf("ioerr-target-%s", target)]++
	return total
}

// AddIOFaults adds n I/O errors at random task-local steps of the
// concurrent processes (S-IOERR-CONC).
func AddIOFaults(spec *RunSpec, seed uint64, n int, estSteps int) {
	r := simrt.NewRng(seed, "iofaults")
	// tables opened by every process when it starts (a failed NewStack ends
	// that process' part of the run: aim most faults past it)
	initTables := 0
	for _, op := range spec.Setup {
		if op.Kind == OpAdd {
			initTables++
		}
	}
	for i := 0; i < n; i++ {
		t := 1 + r.Intn(len(spec.Tasks))
		if r.Bool(0.5) {
			// addressed by call kind: the rare calls get their share
			f := ioFault(seed, t, i)
			f.Step = 0
			f.Call = ioFaultKinds[r.Intn(len(ioFaultKinds))]
			f.Nth = 1 + r.Intn(8)
			if (f.Call == "open" || f.Call == "fstat") && r.Bool(0.8) {
				f.Nth += initTables
			}
			spec.Faults = append(spec.Faults, f)
			continue
		}
		spec.Faults = append(spec.Faults, ioFault(seed, t, 2+r.Intn(estSteps)))
	}
}

var ioFaultKinds = []string{"open", "open", "createx", "tempfile", "rename", "rename", "remove", "readfile", "readdir", "write", "readat", "fstat", "close", "stat"}

func ioEnumPart(prop string, q, t int) Part {
	return Part{Name: "S-IOERR", Quick: q, Thorough: t, Gen: func(seed uint64) *RunSpec { return GenIOErrEnum(prop, seed) }, Exec: ExecIOErrEnum}
}

func ioConcPart(prop string, q, t int, p0 *Profile, opts RunOpts) Part {
	// multi-step transactions (begin ... commit) meet errors between their steps
	pc := *p0
	p := &pc
	multiBlock(p)
	if p.W != nil && len(p.RoleW) == 0 {
		w := map[string]int{}
		for k, v := range p.W {
			w[k] = v
		}
		w[OpBegin] += 3
		w[OpCommit] += 3
		w[OpAbort]++
		p.W = w
	}
	return Part{Name: "S-IOERR-CONC", Quick: q, Thorough: t, Opts: opts, Gen: func(seed uint64) *RunSpec {
		s := GenConc(prop, seed, p)
		s.Scenario = "S-IOERR-CONC"
		r := simrt.NewRng(seed, "iocfg")
		AddIOFaults(s, seed, 1+r.Intn(3), 30+r.Intn(90))
		return s
	}}
}
