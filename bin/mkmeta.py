#!/usr/bin/env python3
# bin/mkmeta.py <table.json>: writes seeded/<id>/meta.json for harvested seeded changes from a table of
# {id, property, wave, needs, check, signatures, missed (optional), origin_note (optional)} and the confirm.txt left by bin/harvest.sh.
import json,sys,os,re
V=os.path.join(os.path.dirname(os.path.abspath(__file__)),'..')
for e in json.load(open(sys.argv[1])):
    d=os.path.join(V,'seeded',e['id'])
    conf=dict(l.strip().split('=',1) for l in open(os.path.join(d,'confirm.txt')) if '=' in l)
    files=[l.split('b/',1)[1].strip() for l in open(os.path.join(d,'patch.diff')) if l.startswith('+++ b/')]
    m={"id":e['id'],"property":e['property'],"wave":e['wave'],"files_changed":files,
       "needs_to_manifest":e['needs'],
       "demonstration":sorted(f for f in os.listdir(d) if f.endswith('_test.go')),
       "origin":"written by an independent sub-agent that saw only the property text and a scratch worktree of /repo (nothing from /verif); "+e.get('origin_note',''),
       "confirmed_by_me":{"in":"fresh scratch worktree of /repo HEAD (bin/harvest.sh)","existing_suite_with_patch":conf.get('suite_with_patch'),"demo_with_patch":conf.get('demo_with_patch'),"demo_without_patch":conf.get('demo_without_patch')},
       "checks_run":"patch applied in a scratch worktree, VERIF_REPO=<worktree> bin/check %s --tier quick (bin/seeded-run2.sh)"%e['check'],
       "detected_by":{"check":e['check'],"tier":"quick","signatures":e['signatures']}}
    if e.get('missed'): m['missed_at_first']=e['missed']
    json.dump(m,open(os.path.join(d,'meta.json'),'w'),indent=1); open(os.path.join(d,'meta.json'),'a').write('\n')
    print('meta',e['id'])
