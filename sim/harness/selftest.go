package harness

import (
	"bytes"
	"flag"
	"fmt"
	"os"
	"os/exec"
	"sort"
	"strings"

	"verifsim/simrt"
)

// ---------------------------------------------------------------- stub fidelity: MemFS vs the kernel

// FSDiff runs one seeded sequence of backend calls on the in-memory
// filesystem and on a real temporary directory and compares every result.
func FSDiff(seed uint64, nops int) error {
	dir, err := os.MkdirTemp("", "verif-fsdiff-")
	if err != nil {
		return err
	}
	defer os.RemoveAll(dir)
	mem := simrt.NewMemFS()
	real := &simrt.RealFS{Root: dir}
	bes := []simrt.Backend{mem, real}
	for _, b := range bes {
		if err := b.MkdirAll("/db"); err != nil {
			return err
		}
	}
	r := simrt.NewRng(seed, "fsdiff")
	names := []string{"/db/a", "/db/b", "/db/c.lock", "/db/tables.list", "/db/tables.list.lock", "/db/nodir/x", "/db"}
	type slot struct{ h [2]simrt.Handle }
	var fds []*slot
	var trace []string
	cmp := func(what string, e0, e1 error, v0, v1 string) error {
		c0, c1 := simrt.ErrClass(e0), simrt.ErrClass(e1)
		// error texts of unclassified errors may differ; classes must agree
		if strings.HasPrefix(c0, "ERR:") && strings.HasPrefix(c1, "ERR:") {
			c0, c1 = "ERR", "ERR"
		}
		trace = append(trace, fmt.Sprintf("%s -> [%s] %q", what, c0, v0))
		if c0 != c1 || v0 != v1 {
			return fmt.Errorf("seed %d: %s: memfs gives [%s] %q, kernel gives [%s] %q\ntrace:\n%s", seed, what, c0, v0, c1, v1, strings.Join(trace, "\n"))
		}
		return nil
	}
	// modification times: whenever the kernel's stamp of a path changes
	// across one call (or the path becomes another inode), the model must
	// have counted a content change of that path (its MTime is set exactly
	// where Gen is). One direction only: two kernel writes inside one
	// clock tick leave the kernel's stamp unchanged.
	type stamp struct {
		ok       bool
		ino, gen uint64
		mt       int64
	}
	snap := func(b simrt.Backend) map[string]stamp {
		m := map[string]stamp{}
		for _, n := range names {
			if fi, err := b.Stat(n); err == nil && !fi.IsDir {
				m[n] = stamp{true, fi.Ino, fi.Gen, fi.MTime}
			}
		}
		return m
	}
	prevM, prevR := snap(mem), snap(real)
	for i := 0; i < nops; i++ {
		if i > 0 {
			curM, curR := snap(mem), snap(real)
			for _, n := range names {
				pr, cr := prevR[n], curR[n]
				pm, cm := prevM[n], curM[n]
				if pr.ok && cr.ok && pm.ok && cm.ok && pr.ino == cr.ino && pr.mt != cr.mt && pm.ino == cm.ino && pm.gen == cm.gen {
					return fmt.Errorf("seed %d: the kernel changed the modification time of %s, the model saw no content change\ntrace:\n%s", seed, n, strings.Join(trace, "\n"))
				}
			}
			prevM, prevR = curM, curR
		}
		n := names[r.Intn(len(names))]
		switch op := r.Intn(13); op {
		case 0, 1: // open / create variants
			flags := []int{os.O_RDONLY, os.O_WRONLY | os.O_CREATE | os.O_EXCL, os.O_WRONLY | os.O_CREATE | os.O_TRUNC, os.O_RDWR | os.O_CREATE, os.O_RDWR, os.O_WRONLY | os.O_APPEND | os.O_CREATE}
			fl := flags[r.Intn(len(flags))]
			h0, e0 := mem.OpenFile(n, fl, 0644)
			h1, e1 := real.OpenFile(n, fl, 0644)
			if err := cmp(fmt.Sprintf("open %s flags %#x", n, fl), e0, e1, "", ""); err != nil {
				return err
			}
			if e0 == nil && e1 == nil {
				fds = append(fds, &slot{[2]simrt.Handle{h0, h1}})
			}
		case 2, 3: // write
			if len(fds) == 0 {
				continue
			}
			s := fds[r.Intn(len(fds))]
			data := hashBytes(r.U64(), r.Intn(40))
			n0, e0 := s.h[0].Write(data)
			n1, e1 := s.h[1].Write(data)
			if err := cmp("write", e0, e1, fmt.Sprint(n0), fmt.Sprint(n1)); err != nil {
				return err
			}
		case 4: // readat
			if len(fds) == 0 {
				continue
			}
			s := fds[r.Intn(len(fds))]
			off, ln := int64(r.Intn(60)), r.Intn(50)
			b0, b1 := make([]byte, ln), make([]byte, ln)
			n0, e0 := s.h[0].ReadAt(b0, off)
			n1, e1 := s.h[1].ReadAt(b1, off)
			if err := cmp(fmt.Sprintf("readat off %d len %d", off, ln), e0, e1, fmt.Sprintf("%d %x", n0, b0[:n0]), fmt.Sprintf("%d %x", n1, b1[:n1])); err != nil {
				return err
			}
		case 5: // read
			if len(fds) == 0 {
				continue
			}
			s := fds[r.Intn(len(fds))]
			ln := r.Intn(50)
			b0, b1 := make([]byte, ln), make([]byte, ln)
			n0, e0 := s.h[0].Read(b0)
			n1, e1 := s.h[1].Read(b1)
			if err := cmp(fmt.Sprintf("read len %d", ln), e0, e1, fmt.Sprintf("%d %x", n0, b0[:n0]), fmt.Sprintf("%d %x", n1, b1[:n1])); err != nil {
				return err
			}
		case 6: // close
			if len(fds) == 0 {
				continue
			}
			k := r.Intn(len(fds))
			s := fds[k]
			e0, e1 := s.h[0].Close(), s.h[1].Close()
			if err := cmp("close", e0, e1, "", ""); err != nil {
				return err
			}
			if r.Bool(0.8) {
				fds = append(fds[:k], fds[k+1:]...)
			}
		case 7: // size through the descriptor (also after unlink / rename)
			if len(fds) == 0 {
				continue
			}
			s := fds[r.Intn(len(fds))]
			z0, e0 := s.h[0].Size()
			z1, e1 := s.h[1].Size()
			if err := cmp("fstat", e0, e1, fmt.Sprint(z0), fmt.Sprint(z1)); err != nil {
				return err
			}
		case 8: // rename
			m := names[r.Intn(len(names))]
			if n == "/db" || m == "/db" {
				continue
			}
			e0, e1 := mem.Rename(n, m), real.Rename(n, m)
			if err := cmp(fmt.Sprintf("rename %s %s", n, m), e0, e1, "", ""); err != nil {
				return err
			}
		case 9: // remove
			if n == "/db" {
				continue
			}
			e0, e1 := mem.Remove(n), real.Remove(n)
			if err := cmp("remove "+n, e0, e1, "", ""); err != nil {
				return err
			}
		case 10: // readfile
			if n == "/db" {
				continue
			}
			b0, e0 := mem.ReadFile(n)
			b1, e1 := real.ReadFile(n)
			if err := cmp("readfile "+n, e0, e1, fmt.Sprintf("%x", b0), fmt.Sprintf("%x", b1)); err != nil {
				return err
			}
		case 11: // readdir
			d0, e0 := mem.ReadDir("/db")
			d1, e1 := real.ReadDir("/db")
			f := func(ds []simrt.DirEnt) string {
				var ss []string
				for _, d := range ds {
					ss = append(ss, fmt.Sprintf("%s:%d:%v", d.Name, d.Size, d.IsDir))
				}
				sort.Strings(ss)
				return strings.Join(ss, ",")
			}
			if err := cmp("readdir", e0, e1, f(d0), f(d1)); err != nil {
				return err
			}
		case 12: // stat
			s0, e0 := mem.Stat(n)
			s1, e1 := real.Stat(n)
			if err := cmp("stat "+n, e0, e1, fmt.Sprintf("%d %v", s0.Size, s0.IsDir), fmt.Sprintf("%d %v", s1.Size, s1.IsDir)); err != nil {
				return err
			}
		}
	}
	for _, s := range fds {
		s.h[0].Close()
		s.h[1].Close()
	}
	return nil
}

// ---------------------------------------------------------------- determinism

// dethashMain prints one line per run: the event-log hash and outcome.
func dethashMain(args []string) int {
	fs := flag.NewFlagSet("dethash", flag.ExitOnError)
	n := fs.Int("n", 50, "runs per property")
	seed := fs.Uint64("seed", 1, "")
	from := fs.Int("from", 0, "")
	props := fs.String("props", "C03,C04,C05,C06,C09,C10,C16,C19", "")
	fs.Parse(args)
	plans := Plans()
	for _, p := range strings.Split(*props, ",") {
		plan := plans[p]
		if plan == nil {
			continue
		}
		pi := indexPlan(plan, "quick", 1)
		// spread the sampled indices over all parts
		for k := *from; k < *from+*n; k++ {
			i := int(simrt.Hash4(*seed, "det", uint64(k), 0) % uint64(pi.total))
			part, _ := pi.partOf(i)
			if part.Name == "S-SHARE-RACE" {
				continue
			}
			spec := part.Gen(RunSeed(*seed, p, i))
			opts := part.Opts
			opts.StopOn = p
			var res *RunResult
			if part.Exec != nil {
				res = part.Exec(spec, opts)
			} else {
				res = ExecuteAny(spec, opts)
			}
			sig := ""
			if v := firstOf(res, p); v != nil {
				sig = v.Signature
			}
			// the recorded schedule (with its kill decisions) replays to the
			// very same event log
			rh := "-"
			if part.Exec == nil && res.Spec != nil {
				r2 := ExecuteAny(ToReplay(res.Spec, res), opts)
				rh = r2.LogHash
			}
			fmt.Printf("%s %d %s steps=%d events=%d segs=%d viol=%s replay=%s\n", p, i, res.LogHash, res.Steps, res.Events, len(res.Segs), sig, rh)
		}
	}
	return 0
}

func selftestMain(args []string) int {
	fs := flag.NewFlagSet("selftest", flag.ExitOnError)
	n := fs.Int("n", 60, "runs per property for the determinism test")
	fsn := fs.Int("fs", 3000, "differential filesystem sequences")
	fs.Parse(args)
	ok := true
	// (1) stub fidelity
	for i := 0; i < *fsn; i++ {
		if err := FSDiff(uint64(i)+1, 60); err != nil {
			fmt.Println("selftest fsdiff: FAIL:", err)
			ok = false
			break
		}
	}
	if ok {
		fmt.Printf("selftest fsdiff: ok (%d seeded call sequences of 60 calls: in-memory filesystem == kernel)\n", *fsn)
	}
	// (2) determinism: same seeds in separate processes under GOMAXPROCS 1, 4, 16
	self, _ := os.Executable()
	gmps := []string{"1", "4", "16", "2"}
	outs := make([][]byte, len(gmps))
	errsCh := make(chan error, 8)
	var c1, c2 []byte
	for i, gmp := range gmps {
		go func(i int, gmp string) {
			cmd := exec.Command(self, "dethash", "--n", fmt.Sprint(*n))
			cmd.Env = append(os.Environ(), "GOMAXPROCS="+gmp)
			out, err := cmd.Output()
			outs[i] = out
			errsCh <- err
		}(i, gmp)
	}
	// and split across two processes with different starting points
	go func() {
		var err error
		c1, err = exec.Command(self, "dethash", "--n", fmt.Sprint(*n/2)).Output()
		errsCh <- err
	}()
	go func() {
		var err error
		c2, err = exec.Command(self, "dethash", "--n", fmt.Sprint(*n-*n/2), "--from", fmt.Sprint(*n/2)).Output()
		errsCh <- err
	}()
	for i := 0; i < len(gmps)+2; i++ {
		if err := <-errsCh; err != nil {
			fmt.Println("selftest determinism: child failed:", err)
			return 2
		}
	}
	split := sortLines(append(append([]byte{}, c1...), c2...))
	lines := bytes.Count(outs[0], []byte("\n"))
	for i := 1; i < len(outs); i++ {
		if !bytes.Equal(outs[0], outs[i]) {
			fmt.Printf("selftest determinism: FAIL: run %d (different GOMAXPROCS) differs from run 0\n%s", i, firstDiff(outs[0], outs[i]))
			ok = false
		}
	}
	replayed := 0
	for _, l := range strings.Split(string(outs[0]), "\n") {
		f := strings.Fields(l)
		if len(f) < 8 || !strings.HasPrefix(f[len(f)-1], "replay=") {
			continue
		}
		rh := strings.TrimPrefix(f[len(f)-1], "replay=")
		if rh == "-" {
			continue
		}
		replayed++
		if rh != f[2] {
			fmt.Printf("selftest determinism: FAIL: replaying the recorded schedule of %s run %s gives event-log hash %s, the live run gave %s\n", f[0], f[1], rh, f[2])
			ok = false
		}
	}
	if ok {
		fmt.Printf("selftest replay: ok (%d recorded schedules, crash decisions included, replay to the identical event log)\n", replayed)
	}
	if !bytes.Equal(sortLines(outs[0]), split) {
		fmt.Printf("selftest determinism: FAIL: executing the runs split across two processes gives different hashes\n%s", firstDiff(sortLines(outs[0]), split))
		ok = false
	}
	if ok {
		fmt.Printf("selftest determinism: ok (%d runs over 8 properties' scenarios, identical event-log hashes in 4 processes with GOMAXPROCS 1/4/16/2 and when split across processes)\n", lines)
	}
	if !ok {
		return 2
	}
	return 0
}

func sortLines(b []byte) []byte {
	ls := strings.Split(strings.TrimSpace(string(b)), "\n")
	sort.Strings(ls)
	return []byte(strings.Join(ls, "\n") + "\n")
}

func firstDiff(a, b []byte) string {
	la, lb := strings.Split(string(a), "\n"), strings.Split(string(b), "\n")
	for i := 0; i < len(la) && i < len(lb); i++ {
		if la[i] != lb[i] {
			return fmt.Sprintf("  < %s\n  > %s\n", la[i], lb[i])
		}
	}
	return fmt.Sprintf("  lengths %d vs %d\n", len(la), len(lb))
}
