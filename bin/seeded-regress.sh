#!/bin/sh
# bin/seeded-regress.sh [seed-id ...]: every kept seeded change against the check recorded in its meta.json
# (detected_by.check), quick tier, without touching /repo (scratch worktree + VERIF_REPO).
# Output: one line "<seed> <check> CAUGHT|MISSED|INFRA|NOAPPLY <first signature>" per seed.
cd "$(dirname "$0")/.."
V="$(pwd)"
IDS="$*"; [ -z "$IDS" ] && IDS=$(ls seeded)
for id in $IDS; do
  c=$(python3 -c "import json;print(json.load(open('seeded/$id/meta.json'))['detected_by']['check'])" 2>/dev/null)
  [ -z "$c" ] && { echo "$id - no meta"; continue; }
  [ "$c" = "none" ] && { echo "$id - kept although no check reports it (see its meta.json)"; continue; }
  W=$(mktemp -d /var/tmp/regress.XXXXXX)
  git -C /repo worktree add -q --detach "$W/wt" HEAD || continue
  if git -C "$W/wt" apply "$V/seeded/$id/patch.diff" 2>/dev/null; then
    out=$(VERIF_OUT="$W/vout" VERIF_REPO="$W/wt" bin/check $c --tier quick ${SCALE:+--scale $SCALE} 2>&1); ec=$?
    sig=$(echo "$out" | grep -E "^C[0-9]+/" | head -1 | cut -c1-120)
    r=MISSED; [ $ec -eq 1 ] && r=CAUGHT; [ $ec -ge 2 ] && r=INFRA
    echo "$id $c $r $sig"
  else
    echo "$id $c NOAPPLY (a later fix: commit in /repo changed the same lines)"
  fi
  git -C /repo worktree remove --force "$W/wt"; rm -rf "$W"
done
