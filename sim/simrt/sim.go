package simrt

import (
	"fmt"
	"runtime"
	"strings"
	"syscall"
)

// Call describes the shim call a task is parked at (it has not executed yet).
type Call struct {
	Kind  string // open, create, createx, rename, remove, readfile, readdir, tempfile, write, readat, read, stat, close, fstat, mkdir, removeall, start, yield, ...
	Path  string
	Path2 string
	Local bool // descriptor-local (does not touch the shared name space)
}

// Event is one executed shim call.
type Event struct {
	Seq    int    `json:"seq"`
	Time   int64  `json:"t"`
	Task   int    `json:"task"`
	Op     int    `json:"op"` // op instance of the task (set by the harness through Task.OpIndex)
	Kind   string `json:"k"`
	Path   string `json:"p,omitempty"`
	Path2  string `json:"p2,omitempty"`
	Ino    uint64 `json:"ino,omitempty"`
	Err    string `json:"err,omitempty"` // "", EEXIST, ENOENT, ECLOSED, EKILLED, other text
	N      int    `json:"n,omitempty"`
	Caller string `json:"fn,omitempty"`
	Mut    bool   `json:"-"`
	Inj    bool   `json:"inj,omitempty"` // failed by fault injection
}

func (e *Event) String() string {
	s := fmt.Sprintf("#%d t%d.%d %s %s", e.Seq, e.Task, e.Op, e.Kind, e.Path)
	if e.Path2 != "" {
		s += " -> " + e.Path2
	}
	if e.Err != "" {
		s += " [" + e.Err + "]"
	}
	if e.Inj {
		s += " INJECTED"
	}
	if e.Caller != "" {
		s += " @" + e.Caller
	}
	return s
}

// Fault kinds addressed by (task, task-local step).
const (
	FaultCrash     = "crash"      // kill the task immediately before its Step-th call
	FaultClockJump = "clock-jump" // advance the clock by Arg ns at the task's Step-th call
	FaultSlow      = "slow"       // from Step on, for Arg2 calls, latency multiplied by Arg
	// FaultIOErr makes the task's Step-th call fail with an I/O error:
	// Arg selects the errno among those the call kind can meet (see
	// InjectIO); for write calls Arg2 (mod the buffer length) bytes
	// reach the file before the failure (short write). The call has no
	// other effect, except close, which releases the descriptor anyway.
	FaultIOErr = "ioerr"
)

type Fault struct {
	Kind string `json:"kind"`
	Task int    `json:"task"`
	Step int    `json:"step"`
	Arg  int64  `json:"arg,omitempty"`
	Arg2 int64  `json:"arg2,omitempty"`
	// Call/Nth (ioerr only, Step == 0): the fault hits the task's Nth call
	// of kind Call instead of a step number - rare call kinds (open, rename,
	// createx) get their share of faults next to the dominant reads.
	Call string `json:"call,omitempty"`
	Nth  int    `json:"nth,omitempty"`
}

// Segment is a run-length piece of a schedule.
type Segment struct {
	Task  int `json:"t"`
	Steps int `json:"n"`
	// Kill marks the decision at which the scheduler picked the task and a
	// crash fault killed it instead of running a step (Steps is 0): a
	// replay kills it at the same point of the interleaving.
	Kill bool `json:"kill,omitempty"`
}

type taskState int

const (
	tsNew taskState = iota
	tsParked
	tsRunning
	tsDone
)

// Task models one OS process: a goroutine of which the scheduler resumes
// exactly one at a time.
type Task struct {
	ID             int
	Name           string
	sim            *Sim
	fn             func(*Task)
	resume         chan struct{}
	state          taskState
	Pending        Call
	Steps          int // number of yield points reached so far (1-based index of the pending call)
	OpIndex        int // set by the harness: current op instance
	quiet          int
	Killed         bool
	Crashed        bool // finished through a kill
	Panic          interface{}
	PanicStack     string
	files          []*FileState
	nameCtr        uint64
	grandCtr       uint64 // draws from the unseeded top-level math/rand functions
	grandSeeded    bool   // rand.Seed was called by this process
	grandSeed      uint64
	mapCtr         uint64
	nowCtr         uint64
	Data           interface{} // harness slot
	TimeFaultSteps int         // steps of this task executed under a time fault (slow window or clock jump)
	ioFault        *Fault      // I/O error addressed at the call being executed
	kindCount      map[string]int
	injected       bool // the call being executed failed by injection
}

// FileState tracks an open descriptor for crash handling.
type FileState struct {
	H      Handle
	Name   string
	Closed bool
	Owner  *Task
}

// Strategy picks the next task.
type Strategy interface {
	// Next is asked at every decision point. runnable is sorted by task
	// id and non-empty; cur may be nil or not runnable.
	Next(s *Sim, runnable []*Task, cur *Task) *Task
}

type Sim struct {
	Seed     uint64
	FS       Backend
	Mem      *MemFS // == FS when simulated, nil in pass-through mode
	Now      int64  // simulated ns
	Tasks    []*Task
	cur      *Task
	parkCh   chan *Task
	Log      []Event
	KeepLog  bool
	Hash     uint64 // running hash of the event log
	Steps    int
	MaxSteps int
	Budget   bool // step budget exceeded
	Faults   []Fault
	// OnEvent is invoked (in quiet mode, inside the running task) after
	// every executed shim call (ev.Mut tells mutating ones apart).
	OnEvent func(ev *Event)
	// OnStep is invoked in the scheduler before a task is resumed.
	OnStep func(t *Task)
	// Schedule recording.
	Sched []Segment
	// LocalYieldP: probability that a descriptor-local call is a real
	// decision point.
	Stop       bool // set by monitors: abort the run
	Counters   map[string]int
	slow       map[int][2]int64 // task -> (factor, untilStep)
	eventCount int
	// TimeFaultEvents counts executed steps that advanced the clock
	// abnormally (slow window or clock jump), by any task: the clock is
	// global, so every call in flight meanwhile has experienced the delay.
	TimeFaultEvents int
	// IOFaultEvents counts calls that failed by injection.
	IOFaultEvents int
	StmtSteps     int // statement-level yields taken
	schedNameCtr  uint64
	CallerPkg     string
}

// G is the simulation the shims talk to. Nil means "no simulation": shim
// calls fall through to a process-global MemFS (used by package init code
// and by plain, unscheduled use of the rewritten library).
var G *Sim

var fallbackFS = NewMemFS()

func NewSim(seed uint64, fs Backend) *Sim {
	s := &Sim{Seed: seed, FS: fs, parkCh: make(chan *Task), MaxSteps: 20000,
		Counters: map[string]int{}, slow: map[int][2]int64{}, CallerPkg: "reftable."}
	if m, ok := fs.(*MemFS); ok {
		s.Mem = m
	}
	s.Hash = Mix64(seed)
	return s
}

func (s *Sim) NewTask(name string, fn func(*Task)) *Task {
	t := &Task{ID: len(s.Tasks), Name: name, sim: s, fn: fn, resume: make(chan struct{})}
	s.Tasks = append(s.Tasks, t)
	return t
}

// Cur returns the running task (nil in the scheduler).
func (s *Sim) Cur() *Task { return s.cur }

func (t *Task) Done() bool { return t.state == tsDone }

func (t *Task) main() {
	defer func() {
		if r := recover(); r != nil {
			t.Panic = r
			buf := make([]byte, 16384)
			buf = buf[:runtime.Stack(buf, false)]
			t.PanicStack = string(buf)
		}
		t.state = tsDone
		// descriptors of a dead process are dropped.
		t.sim.parkCh <- t
	}()
	t.fn(t)
}

// Quiet runs f with scheduling, logging and the clock switched off for the
// current task (observer mode).
func (t *Task) Quiet(f func()) {
	t.quiet++
	defer func() { t.quiet-- }()
	f()
}

func (t *Task) IsQuiet() bool { return t.quiet > 0 }

// yield parks the task at the entry of a shim call. It returns false when
// the call must be refused (the task has been killed and is unwinding).
func (t *Task) yield(c Call) bool {
	if t.Killed {
		return false
	}
	t.Pending = c
	t.Steps++
	t.state = tsParked
	t.sim.parkCh <- t
	<-t.resume
	if t.Killed {
		t.Crashed = true
		runtime.Goexit()
	}
	return true
}

// step resumes t and waits until it parks again or finishes.
func (s *Sim) step(t *Task) {
	s.cur = t
	s.Steps++
	if n := len(s.Sched); n > 0 && s.Sched[n-1].Task == t.ID && !s.Sched[n-1].Kill {
		s.Sched[n-1].Steps++
	} else {
		s.Sched = append(s.Sched, Segment{Task: t.ID, Steps: 1})
	}
	if s.OnStep != nil {
		s.OnStep(t)
	}
	if t.state == tsNew {
		t.state = tsRunning
		go t.main()
	} else {
		t.state = tsRunning
		t.resume <- struct{}{}
	}
	<-s.parkCh
	s.cur = nil
}

// kill makes a parked task unwind through runtime.Goexit. Shim calls issued
// by its deferred functions are refused without touching the disk.
func (s *Sim) kill(t *Task) {
	if t.state == tsDone {
		return
	}
	t.Killed = true
	if t.state == tsNew {
		t.state = tsDone
		t.Crashed = true
		return
	}
	s.cur = t
	t.state = tsRunning
	t.resume <- struct{}{}
	<-s.parkCh
	s.cur = nil
	for _, f := range t.files {
		if !f.Closed {
			f.Closed = true
			f.H.Close()
		}
	}
}

func (s *Sim) faultAt(t *Task, kind string) *Fault {
	for i := range s.Faults {
		f := &s.Faults[i]
		if f.Kind == kind && f.Task == t.ID && f.Step == t.Steps {
			return f
		}
	}
	return nil
}

// RunPhase runs the given tasks to completion under the strategy. Tasks
// not in the list stay parked.
func (s *Sim) RunPhase(tasks []*Task, strat Strategy) {
	var cur *Task
	for !s.Stop {
		var runnable []*Task
		for _, t := range tasks {
			if t.state != tsDone {
				runnable = append(runnable, t)
			}
		}
		if len(runnable) == 0 {
			return
		}
		if s.Steps >= s.MaxSteps {
			s.Budget = true
			return
		}
		t := strat.Next(s, runnable, cur)
		// crash fault addressed at the call this task is parked at.
		if t.state == tsParked || t.state == tsNew {
			if f := s.faultAt(t, FaultCrash); f != nil || (t.state == tsNew && s.crashAtStart(t)) {
				s.Counters["fault.crash"]++
				s.Sched = append(s.Sched, Segment{Task: t.ID, Kill: true})
				s.logSynthetic(t, "CRASH")
				s.kill(t)
				cur = nil
				continue
			}
		}
		s.step(t)
		cur = t
	}
}

func (s *Sim) crashAtStart(t *Task) bool {
	for _, f := range s.Faults {
		if f.Kind == FaultCrash && f.Task == t.ID && f.Step <= 0 {
			return true
		}
	}
	return false
}

// KillAll unwinds every unfinished task (used when a run is abandoned).
func (s *Sim) KillAll() {
	for _, t := range s.Tasks {
		if t.state != tsDone {
			s.kill(t)
		}
	}
}

func (s *Sim) logSynthetic(t *Task, kind string) {
	ev := Event{Seq: len(s.Log), Time: s.Now, Task: t.ID, Op: t.OpIndex, Kind: kind, Path: t.Pending.Kind + " " + t.Pending.Path, Mut: true}
	s.appendEvent(&ev)
}

func (s *Sim) appendEvent(ev *Event) {
	ev.Seq = s.eventCount
	s.eventCount++
	h := s.Hash
	h = HashStr(h, ev.Kind)
	h = HashStr(h, ev.Path)
	h = HashStr(h, ev.Path2)
	h = HashStr(h, ev.Err)
	h = Mix64(h ^ uint64(ev.Task)<<32 ^ uint64(ev.N))
	s.Hash = h
	if s.KeepLog {
		s.Log = append(s.Log, *ev)
	}
	if s.OnEvent != nil {
		if t := s.cur; t != nil {
			t.quiet++
			s.OnEvent(ev)
			t.quiet--
		} else {
			s.OnEvent(ev)
		}
	}
}

// EventCount is the global event sequence number (also the logical
// timestamp used for invoke/return stamps).
func (s *Sim) EventCount() int { return s.eventCount }

// ---------------------------------------------------------------- shim entry points

// Enter is called by every shim at the entry of a call. It returns the
// backend to operate on, the task (nil when unscheduled) and whether the
// call may proceed.
func Enter(c Call) (be Backend, t *Task, ok bool) {
	s := G
	if s == nil {
		return fallbackFS, nil, true
	}
	t = s.cur
	if t == nil || t.quiet > 0 {
		return s.FS, t, true
	}
	if !t.yield(c) {
		return s.FS, t, false
	}
	// the call now executes: advance the clock by its latency.
	// 1-100 us per call: without a time fault every process is responsive
	// and a whole run (<= MaxSteps calls) stays far below any deadline in
	// the code; deadlines are exercised by the slow-process and clock-jump
	// faults of S-TIME, not by accident.
	lat := int64(1000 + Hash4(s.Seed, "lat", uint64(t.ID), uint64(t.Steps))%99000)
	if sl, ok := s.slow[t.ID]; ok {
		if int64(t.Steps) <= sl[1] {
			lat *= sl[0]
			t.TimeFaultSteps++
			s.TimeFaultEvents++
		} else {
			delete(s.slow, t.ID)
		}
	}
	if f := s.faultAt(t, FaultSlow); f != nil {
		s.slow[t.ID] = [2]int64{f.Arg, int64(t.Steps) + f.Arg2}
		t.TimeFaultSteps++
		s.TimeFaultEvents++
		s.Counters["fault.slow"]++
	}
	if f := s.faultAt(t, FaultClockJump); f != nil {
		s.Now += f.Arg
		t.TimeFaultSteps++
		s.TimeFaultEvents++
		s.Counters["fault.clock-jump"]++
	}
	s.Now += lat
	t.ioFault = s.faultAt(t, FaultIOErr)
	if t.kindCount == nil {
		t.kindCount = map[string]int{}
	}
	t.kindCount[c.Kind]++
	if t.ioFault == nil {
		for i := range s.Faults {
			f := &s.Faults[i]
			if f.Kind == FaultIOErr && f.Task == t.ID && f.Step == 0 && f.Call == c.Kind && f.Nth == t.kindCount[c.Kind] {
				t.ioFault = f
			}
		}
	}
	t.injected = false
	return s.FS, t, true
}

// errnos a call kind can meet in a real deployment besides the ones that
// carry meaning for the library's logic (ENOENT, EEXIST are never injected:
// they would be lies about the directory, not failures).
var ioErrnos = map[string][]syscall.Errno{
	"open":     {syscall.EMFILE, syscall.EIO, syscall.EACCES},
	"create":   {syscall.EMFILE, syscall.ENOSPC, syscall.EIO},
	"createx":  {syscall.EMFILE, syscall.ENOSPC, syscall.EIO},
	"tempfile": {syscall.EMFILE, syscall.ENOSPC, syscall.EIO},
	"rename":   {syscall.EIO, syscall.ENOSPC},
	"remove":   {syscall.EIO, syscall.EACCES},
	"stat":     {syscall.EIO},
	"readfile": {syscall.EIO, syscall.EMFILE},
	"readdir":  {syscall.EIO, syscall.EMFILE},
	"write":    {syscall.ENOSPC, syscall.EIO, syscall.EDQUOT},
	"read":     {syscall.EIO},
	"readat":   {syscall.EIO},
	"fstat":    {syscall.EIO},
	"close":    {syscall.EIO},
}

// InjectIO is asked by a shim right after Enter: must this call fail by
// injection? part is the short-write length selector (write calls).
func InjectIO(t *Task, c Call) (errno syscall.Errno, part int64, ok bool) {
	s := G
	if s == nil || t == nil || t.ioFault == nil || t.quiet > 0 {
		return 0, 0, false
	}
	f := t.ioFault
	t.ioFault = nil
	opts := ioErrnos[c.Kind]
	if len(opts) == 0 {
		s.Counters["fault.ioerr-not-applicable"]++
		return 0, 0, false
	}
	a := f.Arg
	if a < 0 {
		a = -a
	}
	errno = opts[int(a%int64(len(opts)))]
	t.injected = true
	s.IOFaultEvents++
	s.Counters["fault.ioerr"]++
	s.Counters["fault.ioerr-"+c.Kind+"-"+ErrClass(errno)]++
	return errno, f.Arg2, true
}

// Record logs an executed call.
func Record(t *Task, c Call, mut bool, ino uint64, n int, err error) {
	s := G
	if s == nil || t == nil || t.quiet > 0 {
		return
	}
	ev := Event{Time: s.Now, Task: t.ID, Op: t.OpIndex, Kind: c.Kind, Path: c.Path, Path2: c.Path2, Ino: ino, N: n, Err: ErrClass(err), Mut: mut, Inj: t.injected}
	t.injected = false
	if mut {
		ev.Caller = callerIn(s.CallerPkg)
	}
	s.appendEvent(&ev)
}

// Refused is the error a killed task's unwinding calls get.
var Refused = fmt.Errorf("simrt: process killed")

// NowNS is the clock read of the time shim.
func NowNS() int64 {
	s := G
	if s == nil {
		return 0
	}
	if t := s.cur; t != nil && t.quiet == 0 {
		t.nowCtr++
		s.Now += 1000
	}
	return s.Now
}

// NameValue is the hash-addressed stream for table-name suffixes and
// temp-file names.
func NameValue() uint64 {
	s := G
	if s == nil {
		fallbackCtr++
		return Mix64(fallbackCtr)
	}
	t := s.cur
	if t == nil {
		s.schedNameCtr++
		return Hash4(s.Seed, "name", 1<<20, s.schedNameCtr)
	}
	t.nameCtr++
	return Hash4(s.Seed, "name", uint64(t.ID), t.nameCtr)
}

var fallbackCtr uint64

// GlobalRandFixed reports whether this run models a deployment in which the
// top-level math/rand functions are NOT seeded at process start (Go < 1.20,
// or GODEBUG=randautoseed=0): every process then draws the same sequence.
// The library's go.mod declares go 1.12, so such deployments exist. A pure
// function of the run seed (a quarter of the runs), so it replays.
func (s *Sim) GlobalRandFixed() bool { return Hash4(s.Seed, "grandmode", 0, 0)%4 == 0 }

// GlobalRandValue is the stream behind the top-level functions of math/rand
// (rand.Uint32(), rand.Intn, ...). Seeded by the process (rand.Seed): a
// function of that seed alone. Unseeded: per process and random in
// auto-seeding deployments, the same sequence in every process otherwise.
func GlobalRandValue() uint64 {
	s := G
	if s == nil || s.cur == nil {
		return NameValue()
	}
	t := s.cur
	if t.grandSeeded {
		t.grandCtr++
		return Hash4(t.grandSeed, "grand-seeded", 0, t.grandCtr)
	}
	if s.GlobalRandFixed() {
		t.grandCtr++
		s.Counters["global-rand-fixed-draw"]++
		return Hash4(1, "grand-fixed", 0, t.grandCtr)
	}
	return NameValue()
}

// GlobalRandSeed is rand.Seed called by the running process.
func GlobalRandSeed(seed int64) {
	s := G
	if s == nil || s.cur == nil {
		return
	}
	s.cur.grandSeeded, s.cur.grandSeed, s.cur.grandCtr = true, uint64(seed), 0
}

// EpochNS keeps simulated times away from the zero Time (shared by the time
// shim's Now and the os shim's ModTime).
const EpochNS = int64(1600000000) * int64(1000000000)

// Pid is the process id of the running simulated process: one per task, so
// that a library that puts its pid into file names or lock contents sees
// what separate processes would see.
func Pid() int {
	if G != nil && G.cur != nil {
		return 1000 + G.cur.ID
	}
	return 1
}

// MTimeGranNS is the granularity of file modification times on this run's
// disk: nanoseconds, a kernel tick (4 ms, ext4/xfs with the coarse clock),
// one second (ext3, HFS+, NFSv2) or two (FAT). A pure function of the run
// seed. Runs last well under a second of simulated time unless time faults
// are injected, so with coarse stamps files written at different moments
// carry equal times - which is what code that compares times must survive.
func MTimeGranNS() int64 {
	if G == nil {
		return 1
	}
	switch Hash4(G.Seed, "mtimegran", 0, 0) % 20 {
	case 0, 1, 2, 3, 4:
		return 1
	case 5, 6, 7, 8, 9:
		return 4000000
	case 10, 11, 12, 13, 14, 15, 16:
		return 1000000000
	}
	return 2000000000
}

// DirPermSeed is the hash-addressed choice of the order in which an open
// directory hands out its entries (Readdir / Readdirnames: directory
// order, which no filesystem promises to be sorted).
func DirPermSeed() uint64 {
	s := G
	if s == nil || s.cur == nil {
		return 0
	}
	t := s.cur
	t.mapCtr++
	return Hash4(s.Seed, "dir", uint64(t.ID), t.mapCtr)
}

// ReadCalls / ReadBytes count what descriptor reads (Read, ReadAt) have
// delivered to the library since the process started (never reset; users
// take differences). Only the storage-fault checks look at them.
var ReadCalls, ReadBytes int64

// InTask reports whether a simulated process is executing.
func InTask() bool { return G != nil && G.cur != nil }

// MapPerm returns a hash-addressed permutation seed for a map range.
func mapPermSeed() (uint64, bool) {
	s := G
	if s == nil || s.cur == nil {
		return 0, false
	}
	t := s.cur
	t.mapCtr++
	return Hash4(s.Seed, "map", uint64(t.ID), t.mapCtr), true
}

func callerIn(pkg string) string {
	var pcs [24]uintptr
	n := runtime.Callers(3, pcs[:])
	frames := runtime.CallersFrames(pcs[:n])
	for {
		fr, more := frames.Next()
		fn := fr.Function
		if i := strings.LastIndex(fn, "/"); i >= 0 {
			fn = fn[i+1:]
		}
		if strings.HasPrefix(fn, pkg) && !strings.HasPrefix(fn, pkg+"Sim") {
			return strings.TrimPrefix(fn, pkg)
		}
		if !more {
			return ""
		}
	}
}

// RegisterFile attaches an open descriptor to the running task so that a
// crash drops it.
func RegisterFile(t *Task, f *FileState) {
	if t != nil {
		f.Owner = t
		t.files = append(t.files, f)
	}
}
