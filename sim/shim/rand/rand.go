// Package rand is the simulator's stand-in for math/rand: every value comes
// from the simulator's hash-addressed name stream, so that table-name
// suffixes are a function of (run seed, task, counter).
package rand

import "verifsim/simrt"

type Source interface {
	Int63() int64
	Seed(seed int64)
}

type simSource struct{}

func (simSource) Int63() int64    { return int64(simrt.NameValue() >> 1) }
func (simSource) Seed(seed int64) {}

func NewSource(seed int64) Source { return simSource{} }

type Rand struct{}

func New(src Source) *Rand { return &Rand{} }

func (r *Rand) Uint32() uint32   { return uint32(simrt.NameValue() >> 32) }
func (r *Rand) Uint64() uint64   { return simrt.NameValue() }
func (r *Rand) Int63() int64     { return int64(simrt.NameValue() >> 1) }
func (r *Rand) Int31() int32     { return int32(simrt.NameValue() >> 33) }
func (r *Rand) Int() int         { return int(uint(simrt.NameValue()) >> 1) }
func (r *Rand) Float64() float64 { return float64(simrt.NameValue()>>11) / float64(1<<53) }
func (r *Rand) Seed(seed int64)  {}
func (r *Rand) Intn(n int) int {
	if n <= 0 {
		panic("invalid argument to Intn")
	}
	return int(simrt.NameValue() % uint64(n))
}
func (r *Rand) Int63n(n int64) int64 {
	if n <= 0 {
		panic("invalid argument to Int63n")
	}
	return int64(simrt.NameValue() % uint64(n))
}
func (r *Rand) Int31n(n int32) int32 { return int32(r.Int63n(int64(n))) }
func (r *Rand) Perm(n int) []int {
	p := make([]int, n)
	for i := range p {
		p[i] = i
	}
	for i := n - 1; i > 0; i-- {
		j := r.Intn(i + 1)
		p[i], p[j] = p[j], p[i]
	}
	return p
}
func (r *Rand) Shuffle(n int, swap func(i, j int)) {
	for i := n - 1; i > 0; i-- {
		swap(i, r.Intn(i+1))
	}
}

var global = &Rand{}

func Seed(seed int64)                    {}
func Uint32() uint32                     { return global.Uint32() }
func Uint64() uint64                     { return global.Uint64() }
func Int63() int64                       { return global.Int63() }
func Int31() int32                       { return global.Int31() }
func Int() int                           { return global.Int() }
func Intn(n int) int                     { return global.Intn(n) }
func Int63n(n int64) int64               { return global.Int63n(n) }
func Int31n(n int32) int32               { return global.Int31n(n) }
func Float64() float64                   { return global.Float64() }
func Perm(n int) []int                   { return global.Perm(n) }
func Shuffle(n int, swap func(i, j int)) { global.Shuffle(n, swap) }
