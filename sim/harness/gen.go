package harness

import (
	"fmt"
	"strings"

	"verifsim/simrt"
)

// Profile steers the generator (swarm style: every knob is drawn per run).
type Profile struct {
	Names          []string
	MinTasks       int
	MaxTasks       int
	MinOps         int
	MaxOps         int
	W              map[string]int // op-kind weights
	InitMax        int            // initial stack: 0..InitMax transactions in setup
	Logs           bool
	BadTxn         float64 // probability of a transaction generated to be rejected
	SharedOids     int     // >0: refs point at one of this many shared object ids
	ForceNameCheck bool
	SkipNameCheckP float64
	AutoP          float64 // probability that a handle has auto-compaction on
	ReadEvery      bool
	HandlesPerTask int
	RefsPerTxn     [2]int
	LogsPerTxn     [2]int
	SmallBlocks    bool
	ManyNames      int // >0: extend the alphabet to this many names in some runs
	HugeNames      int // >0: in some of those runs, this many names
	ExpiryTimes    bool
	MultiSpan      bool
	RoleW          []map[string]int // per-task op weights (task i uses RoleW[i%len])
	ForceLocalP    bool             // every descriptor-local call is a decision point
	PopularP       float64          // probability of a transaction that points many refs at one object id
	FwdLogP        float64          // probability that a new log entry is forward-dated (update index above its table's limits)
	PrefixNamesP   float64          // probability that a run uses the prefix-rich alphabet (name-check refusals)
	LongNamesP     float64          // probability that a run uses names longer than 127 bytes
	BulkLogsP      float64          // probability that a transaction is a bulk reflog import (60-160 entries of one ref)
	DeepInitP      float64          // probability that the initial stack is 12-23 uncompacted tables deep
	InitMin        int              // the initial stack has at least this many transactions
	WidePopularP   float64          // probability (runs with 1024- or 256-byte blocks only) that the history ends with a transaction whose table has hundreds of ref blocks holding one object id
	BigMultiP      float64          // probability that a multi-table Addition is a bulk import of 8-32 tables (the Addition API never compacts)
	BigTableP      float64          // probability that the initial stack of a concurrent run starts with one table of 200-300 KB
	IdxJumpP       float64          // probability that a transaction's limits lie far above the next update index (up to 2^55: names grow past 12 hex digits at 2^48)
	ShortRangesP   float64          // probability that a range compaction covers just 2-3 tables at a random position of a deep stack
}

var defaultNames = []string{"HEAD", "refs/heads/a", "refs/heads/b", "refs/heads/c", "refs/tags/t", "refs/tags/u", "refs/x/y", "refs/x/z"}

// prefix-rich alphabet; "a-b", "a.b", "a!" sort between "a" and "a/b"
// ('!', '-', '.' < '/'), "a0" right after every "a/...".
var prefixNames = []string{"a", "a/b", "a/b/c", "a/bb", "ab", "b", "b/a", "a/b/c/d", "b/a/c", "a-b", "a.b", "a!", "a0", "b/a-", "b/a/c0", "a-b/c", "a.b/c", "a!/x", "b/a-/d"}
var badNames = []string{"a//b", "a/./b", "a/../b", "/a", "a/", ".", "b/.."}

func pickN(r *simrt.Rng, lo, hi int) int {
	if hi <= lo {
		return lo
	}
	return lo + r.Intn(hi-lo+1)
}

func weighted(r *simrt.Rng, w map[string]int, order []string) string {
	tot := 0
	for _, k := range order {
		tot += w[k]
	}
	if tot == 0 {
		return order[0]
	}
	x := r.Intn(tot)
	for _, k := range order {
		if x < w[k] {
			return k
		}
		x -= w[k]
	}
	return order[0]
}

var opOrder = []string{OpBegin, OpCommit, OpAbort, OpAdd, OpAddMulti, OpCompactAll, OpExpire, OpAutoCompact, OpCompactRange, OpClean, OpUpToDate, OpRead, OpReopen, OpClose, OpSetAuto}

// GenCfg draws a write configuration.
func GenCfg(r *simrt.Rng, p *Profile) CfgSpec {
	c := CfgSpec{Hash: "sha1"}
	if r.Bool(0.4) {
		c.Hash = "s256"
	}
	sizes := []uint32{0, 256, 512, 1024}
	if p.SmallBlocks && c.Hash == "sha1" && !p.Logs {
		sizes = append(sizes, 128, 128)
	}
	if p.SmallBlocks {
		sizes = append(sizes, 256, 256)
	}
	c.BlockSize = sizes[r.Intn(len(sizes))]
	c.Restart = r.Pick(0, 0, 1, 2, 3, 16)
	c.Unaligned = r.Bool(0.3)
	c.SkipIndexObjects = r.Bool(0.3)
	c.ExactLog = r.Bool(0.3)
	if !p.ForceNameCheck {
		c.SkipNameCheck = r.Bool(p.SkipNameCheckP)
	}
	return c
}

type genCtx struct {
	r      *simrt.Rng
	p      *Profile
	cfg    CfgSpec
	names  []string
	nextID int
	timeLo uint64
	role   map[string]int
	// uniform > 0: transactions of exactly this many plain refs and no
	// log entries (tables of one size class: bulk imports)
	uniform int
}

func (g *genCtx) txn() TxnSpec {
	g.nextID++
	tx := TxnSpec{ID: g.nextID}
	r := g.r
	if g.p.MultiSpan && r.Bool(0.2) {
		tx.Span = 1 + r.Intn(3)
	}
	if g.p.BadTxn > 0 && r.Bool(g.p.BadTxn) {
		tx.Bad = []string{"stale-index", "big", "closure-error"}[r.Intn(3)]
	}
	if g.p.IdxJumpP > 0 && r.Bool(g.p.IdxJumpP) {
		// the writer accepts any limits at or above the next update index
		tx.Jump = []uint64{1, 1000, 1 << 20, 1 << 32, 1<<48 - 3, 1 << 48, 1 << 55}[r.Intn(7)]
	}
	nr := pickN(r, g.p.RefsPerTxn[0], g.p.RefsPerTxn[1])
	if g.uniform > 0 {
		tx.Span, tx.Bad, tx.Jump = 0, "", 0
		for i := 0; i < g.uniform; i++ {
			tx.Refs = append(tx.Refs, RefSpec{Name: g.names[r.Intn(len(g.names))], Kind: RefVal})
		}
		return tx
	}
	popular := 0
	if g.p.PopularP > 0 && r.Bool(g.p.PopularP) {
		nr = 20 + r.Intn(45)
		if len(g.names) > 100 {
			// enough ref blocks holding one object id for its position
			// list to overflow a small object block (truncated list)
			nr = 150 + r.Intn(len(g.names)-140)
		}
		popular = 1 + r.Intn(2)
	}
	for i := 0; i < nr; i++ {
		rs := RefSpec{Name: g.names[r.Intn(len(g.names))]}
		if popular > 0 {
			rs.Kind = RefVal
			rs.OidTag = popular
			tx.Refs = append(tx.Refs, rs)
			continue
		}
		switch x := r.Intn(10); {
		case x < 3:
			rs.Kind = RefDel
		case x < 7:
			rs.Kind = RefVal
		case x < 9:
			rs.Kind = RefPeeled
		default:
			rs.Kind = RefSym
			rs.Target = g.names[r.Intn(len(g.names))]
			// long symbolic targets (records near the room left in a block),
			// as long as the record still fits the smallest block of the run
			if r.Bool(0.35) && g.cfg.BlockSize != 128 {
				max := 150
				if g.cfg.BlockSize == 256 {
					max = 60
				}
				if len(rs.Name) < 60 {
					rs.TargetLen = 30 + r.Intn(max-29)
				}
			}
		}
		if g.p.SharedOids > 0 && r.Bool(0.7) {
			rs.OidTag = 1 + r.Intn(g.p.SharedOids)
			if r.Bool(0.5) {
				rs.PeelTag = 1 + r.Intn(g.p.SharedOids)
			}
		}
		if tx.Span > 1 {
			rs.Off = r.Intn(tx.Span)
		}
		tx.Refs = append(tx.Refs, rs)
	}
	if g.p.Logs && g.p.BulkLogsP > 0 && r.Bool(g.p.BulkLogsP) {
		// bulk reflog import: one ref, many entries over a wide index span,
		// mostly old times with a few recent ones at arbitrary indices
		tx.Span = 40 + r.Intn(80)
		name := g.names[r.Intn(len(g.names))]
		n := 60 + r.Intn(100)
		for i := 0; i < n; i++ {
			ls := LogSpec{Name: name, Which: -1, Off: r.Intn(tx.Span), Who: r.Intn(2), Msg: "m"}
			ls.Time = g.timeLo + uint64(r.Intn(5))
			if r.Bool(0.04) {
				ls.Time = g.timeLo + 30 + uint64(r.Intn(10))
			}
			tx.Logs = append(tx.Logs, ls)
		}
		return tx
	}
	if g.p.Logs {
		nl := pickN(r, g.p.LogsPerTxn[0], g.p.LogsPerTxn[1])
		for i := 0; i < nl; i++ {
			ls := LogSpec{Name: g.names[r.Intn(len(g.names))], Which: -1}
			switch x := r.Intn(10); {
			case x < 6:
			case x < 8:
				ls.Which = r.Intn(4)
				ls.Del = true
			default:
				ls.Which = r.Intn(4)
			}
			if ls.Which < 0 && g.p.FwdLogP > 0 && r.Bool(g.p.FwdLogP) {
				ls.Fwd = 1 + r.Intn(6)
			}
			ls.Time = g.timeLo + uint64(r.Intn(40))
			if r.Bool(0.1) {
				ls.Time = 0
			}
			ls.TZ = int16(r.Pick(0, 60, -120, 330))
			ls.Who = r.Intn(4)
			if ls.Who == 2 && ls.Time == 0 {
				ls.Who = 0 // keep live entries distinguishable from deletions
			}
			msgs := []string{"", "m", "commit: x y", "m\n"}
			if g.cfg.ExactLog {
				msgs = append(msgs, "two\nlines", " padded ", "trail\n\n")
			} else if g.p.BadTxn > 0 && r.Bool(g.p.BadTxn) {
				msgs = []string{"two\nlines"}
			}
			ls.Msg = msgs[r.Intn(len(msgs))]
			ls.NilOld = r.Bool(0.15)
			ls.NilNew = r.Bool(0.1)
			if tx.Span > 1 {
				ls.Off = r.Intn(tx.Span)
			}
			tx.Logs = append(tx.Logs, ls)
		}
	}
	return tx
}

// wideTxn: one object id (as value, every fifth time as peeled value) in
// the first N ref blocks of a table of N+20 blocks: object-index position
// lists of every length class (count in the key bits, one-byte count,
// two-byte count), N biased to the class boundaries. Names carry a long
// incompressible suffix so that a 1024-byte block holds exactly five
// records (measured) and N blocks cost 5N records. Placed at the end of a
// history: the read oracles scan the table many times.
func (g *genCtx) wideTxn() TxnSpec {
	r := g.r
	g.nextID++
	tx := TxnSpec{ID: g.nextID}
	// refs per block and random name bytes: five 166-byte names fill a
	// 1024-byte block, one 136-byte name (plus up to two 32-byte ids) a
	// 256-byte block
	per, nb := 5, 75
	if g.cfg.BlockSize == 256 {
		per, nb = 1, 60
	}
	nblocks := 250 + r.Intn(21)
	if r.Bool(0.25) {
		nblocks = r.Pick(3, 7, 8, 9, 127, 128, 129, 300)
	}
	k := nblocks*per - r.Intn(per)
	n := (nblocks + 20) * per
	tag := 1 + r.Intn(2)
	for i := 0; i < n; i++ {
		b := make([]byte, 0, 80)
		x := uint64(i)
		for len(b) < nb {
			x = simrt.Mix64(x + 1)
			b = append(b, byte(x), byte(x>>8), byte(x>>16), byte(x>>24), byte(x>>32))
		}
		rs := RefSpec{Name: fmt.Sprintf("refs/wide/%05d-%x", i, b[:nb]), Kind: RefVal}
		if i < k {
			rs.OidTag = tag
			if i%5 == 0 {
				rs.Kind, rs.OidTag, rs.PeelTag = RefPeeled, 0, tag
			}
		}
		tx.Refs = append(tx.Refs, rs)
	}
	return tx
}

func (g *genCtx) exp() *ExpSpec {
	r := g.r
	e := &ExpSpec{}
	// each limit unset, below, inside, equal-ish, above the data range
	pick := func(lo, hi uint64) uint64 {
		switch r.Intn(5) {
		case 0:
			return 0
		case 1:
			if lo > 1 {
				return lo - 1
			}
			return 1
		case 2:
			return lo + uint64(r.Intn(int(hi-lo)+1))
		case 3:
			return hi
		}
		return hi + 5
	}
	e.Time = pick(g.timeLo, g.timeLo+40)
	e.Min = pick(1, 12)
	e.Max = pick(1, 12)
	if r.Bool(0.3) {
		e.Min = 0
	}
	if r.Bool(0.3) {
		e.Max = 0
	}
	if r.Bool(0.3) {
		e.Time = 0
	}
	return e
}

func (g *genCtx) op(h int) OpSpec {
	r := g.r
	wts := g.p.W
	if g.role != nil {
		wts = g.role
	}
	k := weighted(r, wts, opOrder)
	op := OpSpec{Kind: k, H: h}
	switch k {
	case OpAdd:
		op.Txns = []TxnSpec{g.txn()}
	case OpBegin:
		n := r.Intn(3)
		for i := 0; i < n; i++ {
			op.Txns = append(op.Txns, g.txn())
		}
	case OpAddMulti:
		n := 1 + r.Intn(3)
		if g.p.BigMultiP > 0 && r.Bool(g.p.BigMultiP) {
			n = 8 + r.Intn(25)
			if r.Bool(0.7) {
				g.uniform = 1 + r.Intn(2)
				defer func() { g.uniform = 0 }()
			}
		}
		for i := 0; i < n; i++ {
			op.Txns = append(op.Txns, g.txn())
		}
	case OpExpire:
		op.Exp = g.exp()
	case OpCompactRange:
		op.First = r.Intn(8)
		op.Last = r.Intn(8)
		if g.p.ShortRangesP > 0 && r.Bool(g.p.ShortRangesP) {
			// taken modulo the stack depth at run time; 16 positions
			op.First = r.Intn(16)
			op.Last = op.First + 1 + r.Intn(2)
		}
	case OpReopen, OpSetAuto:
		op.Auto = r.Bool(g.p.AutoP)
	case OpRead:
		op.Read = ReadSpec{Seeks: r.Intn(4), RefsFor: r.Bool(0.5)}
	}
	return op
}

func (g *genCtx) pickNames() {
	g.names = g.p.Names
	if len(g.names) == 0 {
		g.names = defaultNames
	}
	if g.p.ManyNames > 0 && g.r.Bool(0.4) {
		var ns []string
		n := g.p.ManyNames
		if g.p.HugeNames > 0 && g.r.Bool(0.35) {
			n = g.p.HugeNames
		}
		for i := 0; i < n; i++ {
			ns = append(ns, fmt.Sprintf("refs/heads/n%02d", i))
		}
		g.names = ns
	} else if g.p.PrefixNamesP > 0 && g.r.Bool(g.p.PrefixNamesP) {
		g.names = prefixNames
	} else if g.p.LongNamesP > 0 && g.cfg.BlockSize != 128 && g.cfg.BlockSize != 256 && g.r.Bool(g.p.LongNamesP) {
		// names longer than 127 bytes: two-byte prefix/suffix varints in the key encoding
		var ns []string
		stem := "refs/heads/" + strings.Repeat("long-branch-name-", 8)
		for i := 0; i < 12; i++ {
			ns = append(ns, fmt.Sprintf("%s%c/%02d", stem, 'a'+i%3, i))
		}
		g.names = ns
	} else if len(g.names) > 3 && g.r.Bool(0.3) {
		// narrow alphabet: more shadowing
		g.names = g.names[:3]
	}
}

func schedSpec(r *simrt.Rng, est int) SchedSpec {
	s := SchedSpec{}
	switch r.Intn(4) {
	case 0:
		s.Mode = "uniform"
	case 1:
		s.Mode = "sticky"
		s.StickP = []float64{0.5, 0.8, 0.95}[r.Intn(3)]
	default:
		s.Mode = "pct"
		s.Depth = 1 + r.Intn(4)
		s.EstLen = est
	}
	s.LocalP = []float64{0, 0.1, 1}[r.Intn(3)]
	for _, b := range []string{"after-lock-remove", "after-list-rename", "after-table-rename", "after-lock-create", "after-list-read"} {
		if r.Bool(0.3) {
			s.Bias = append(s.Bias, b)
		}
	}
	return s
}

// GenTurn: S-TURN — 1..k handles of one task take turns executing whole
// operations.
func GenTurn(prop string, seed uint64, p *Profile) *RunSpec {
	r := simrt.NewRng(seed, "workload")
	g := &genCtx{r: r, p: p, timeLo: 100}
	g.cfg = GenCfg(simrt.NewRng(seed, "config"), p)
	g.pickNames()
	spec := &RunSpec{Property: prop, Scenario: "S-TURN", Seed: seed, Cfg: g.cfg, Sched: SchedSpec{Mode: "sequential"}}
	nh := pickN(r, 1, max(1, p.HandlesPerTask))
	var ops []OpSpec
	for h := 0; h < nh; h++ {
		ops = append(ops, OpSpec{Kind: OpOpen, H: h, Auto: r.Bool(p.AutoP)})
	}
	n := pickN(r, p.MinOps, p.MaxOps)
	if len(g.names) > 100 && n > 4 {
		n = 2 + r.Intn(3) // huge alphabets: few, large transactions
	}
	for i := 0; i < n; i++ {
		ops = append(ops, g.op(r.Intn(nh)))
	}
	if p.W[OpBegin] > 0 {
		for h := 0; h < nh; h++ {
			ops = append(ops, OpSpec{Kind: OpAbort, H: h})
		}
	}
	if p.WidePopularP > 0 && (g.cfg.BlockSize == 1024 || g.cfg.BlockSize == 256) && r.Bool(p.WidePopularP) {
		ops = append(ops, OpSpec{Kind: OpUpToDate, H: 0}, OpSpec{Kind: OpReopen, H: 0, Auto: false}, OpSpec{Kind: OpAdd, H: 0, Txns: []TxnSpec{g.wideTxn()}})
	}
	spec.Tasks = []TaskSpec{{Name: "turn", Ops: ops}}
	return spec
}

// GenConc: S-CONC — 2..4 tasks, FS-call-granularity interleaving.
func GenConc(prop string, seed uint64, p *Profile) *RunSpec {
	r := simrt.NewRng(seed, "workload")
	g := &genCtx{r: r, p: p, timeLo: 100}
	g.cfg = GenCfg(simrt.NewRng(seed, "config"), p)
	g.pickNames()
	spec := &RunSpec{Property: prop, Scenario: "S-CONC", Seed: seed, Cfg: g.cfg}
	// initial stack
	ni := r.Intn(p.InitMax + 1)
	if p.InitMin > 0 {
		ni = p.InitMin + r.Intn(max(1, p.InitMax-p.InitMin+1))
	}
	deepInit := p.DeepInitP > 0 && r.Bool(p.DeepInitP)
	if deepInit {
		ni = 12 + r.Intn(12)
	}
	if p.BigTableP > 0 && (g.cfg.BlockSize == 0 || g.cfg.BlockSize == 1024) && r.Bool(p.BigTableP) {
		// one table of 200-300 KB at the bottom of the initial stack
		// (thresholds on table size: whole-file caching, lazy opening)
		if ni == 0 {
			ni = 1
		}
		spec.Setup = append(spec.Setup, OpSpec{Kind: OpOpen, H: setupHandle, Auto: false}, OpSpec{Kind: OpAdd, H: setupHandle, Txns: []TxnSpec{g.wideTxn()}})
		ni--
	}
	if ni > 0 {
		if len(spec.Setup) == 0 {
			spec.Setup = append(spec.Setup, OpSpec{Kind: OpOpen, H: setupHandle, Auto: false})
		}
		for i := 0; i < ni; i++ {
			tx := g.txn()
			tx.Bad = ""
			if (deepInit || p.InitMin > 0) && len(tx.Refs)+len(tx.Logs) == 0 {
				tx.Refs = []RefSpec{{Name: g.names[r.Intn(len(g.names))], Kind: RefVal}}
			}
			spec.Setup = append(spec.Setup, OpSpec{Kind: OpAdd, H: setupHandle, Txns: []TxnSpec{tx}})
		}
	}
	nt := pickN(r, p.MinTasks, p.MaxTasks)
	est := 0
	for t := 0; t < nt; t++ {
		ts := TaskSpec{Name: fmt.Sprintf("p%d", t)}
		ts.Ops = append(ts.Ops, OpSpec{Kind: OpOpen, H: t, Auto: r.Bool(p.AutoP)})
		g.role = nil
		if len(p.RoleW) > 0 {
			g.role = p.RoleW[t%len(p.RoleW)]
		}
		n := pickN(r, p.MinOps, p.MaxOps)
		for i := 0; i < n; i++ {
			ts.Ops = append(ts.Ops, g.op(t))
			est += 30
		}
		if p.W[OpBegin] > 0 || (g.role != nil && g.role[OpBegin] > 0) {
			ts.Ops = append(ts.Ops, OpSpec{Kind: OpAbort, H: t})
		}
		spec.Tasks = append(spec.Tasks, ts)
	}
	spec.Sched = schedSpec(simrt.NewRng(seed, "schedcfg"), est)
	if p.ForceLocalP {
		spec.Sched.LocalP = 1
	}
	return spec
}

// AddCrashes adds up to n crash faults at random task-local steps, and a
// restart task that opens the directory afterwards.
func AddCrashes(spec *RunSpec, seed uint64, n int, estSteps int) {
	r := simrt.NewRng(seed, "faults")
	for i := 0; i < n; i++ {
		t := 1 + r.Intn(len(spec.Tasks))
		spec.Faults = append(spec.Faults, simrt.Fault{Kind: simrt.FaultCrash, Task: t, Step: 2 + r.Intn(estSteps)})
	}
	h := 50
	ops := []OpSpec{{Kind: OpOpen, H: h, Auto: r.Bool(0.5)}, {Kind: OpRead, H: h}}
	if r.Bool(0.5) {
		// the operator removes a lock file left by a dead process
		ops = append([]OpSpec{{Kind: OpRmLock, H: h}}, ops...)
	}
	g := &genCtx{r: r, p: &Profile{RefsPerTxn: [2]int{1, 2}}, names: defaultNames, nextID: 5000, cfg: spec.Cfg}
	// Add, Clean and CompactAll in any order (Clean may come first, while
	// the left-overs of the crash are still newer than the stack)
	mid := []OpSpec{{Kind: OpAdd, H: h, Txns: []TxnSpec{g.txn()}}}
	if r.Bool(0.5) {
		mid = append(mid, OpSpec{Kind: OpClean, H: h})
	}
	if r.Bool(0.5) {
		mid = append(mid, OpSpec{Kind: OpCompactAll, H: h})
	}
	for i := len(mid) - 1; i > 0; i-- {
		j := r.Intn(i + 1)
		mid[i], mid[j] = mid[j], mid[i]
	}
	ops = append(ops, mid...)
	ops = append(ops, OpSpec{Kind: OpRead, H: h}, OpSpec{Kind: OpClose, H: h})
	spec.After = append(spec.After, TaskSpec{Name: "restart", Ops: ops})
}

// AddTimeFaults adds slow-process and clock-jump faults (S-TIME).
func AddTimeFaults(spec *RunSpec, seed uint64, estSteps int) {
	r := simrt.NewRng(seed, "timefaults")
	n := 1 + r.Intn(2)
	for i := 0; i < n; i++ {
		t := 1 + r.Intn(len(spec.Tasks))
		if r.Bool(0.5) {
			// seconds (NTP step, a stalled process), minutes or hours (a
			// suspended virtual machine, a laptop lid): whatever the
			// library derives from elapsed time or file ages must survive
			jump := int64(1+r.Intn(10)) * 1e9
			switch r.Intn(10) {
			case 0, 1:
				jump *= 60
			case 2:
				jump *= 3600
			}
			spec.Faults = append(spec.Faults, simrt.Fault{Kind: simrt.FaultClockJump, Task: t, Step: 2 + r.Intn(estSteps), Arg: jump})
		} else {
			spec.Faults = append(spec.Faults, simrt.Fault{Kind: simrt.FaultSlow, Task: t, Step: 2 + r.Intn(estSteps), Arg: 30000, Arg2: int64(1 + r.Intn(8))})
		}
	}
}
