package harness

import (
	"fmt"

	"verifsim/simrt"
)

// S-CRASH-ENUM (C06): a seeded prefix history, then one target operation
// executed by a process that is killed immediately before its k-th
// filesystem call, for every k; a second process that was opened before
// the crash continues afterwards, then a fresh process opens the directory.

var crashTargets = []string{OpAdd, OpAdd, OpAddMulti, OpCompactAll, OpExpire, OpCompactRange, OpAutoCompact, OpClean, OpClose, OpReopen}

// GenCrashEnum generates the base spec (no fault yet).
func GenCrashEnum(prop string, seed uint64) *RunSpec { return genCrashEnumWith(prop, seed, nil) }

func genCrashEnumWith(prop string, seed uint64, tweak func(*Profile)) *RunSpec {
	r := simrt.NewRng(seed, "workload")
	p := baseProfile()
	p.MultiSpan = true
	if tweak != nil {
		tweak(p)
	}
	g := &genCtx{r: r, p: p, timeLo: 100}
	g.cfg = GenCfg(simrt.NewRng(seed, "config"), p)
	g.pickNames()
	spec := &RunSpec{Property: prop, Scenario: "S-CRASH-ENUM", Seed: seed, Cfg: g.cfg, Sched: SchedSpec{Mode: "sequential"}}
	// prefix: handles 0 (target process) and 1 (survivor), 0..8 ops
	autoT := r.Bool(0.6)
	// deep instances: a long uncompacted history (depth-dependent code
	// paths, long lists, many open tables)
	deep := r.Bool(0.02)
	auto1 := r.Bool(0.5)
	if deep {
		autoT, auto1 = false, false
	}
	spec.Setup = append(spec.Setup, OpSpec{Kind: OpOpen, H: 0, Auto: autoT}, OpSpec{Kind: OpOpen, H: 1, Auto: auto1})
	p.W = map[string]int{OpAdd: 10, OpAddMulti: 1, OpCompactRange: 1, OpCompactAll: 1}
	n := r.Intn(9)
	if deep {
		p.W = map[string]int{OpAdd: 10, OpAddMulti: 1}
		n = 12 + r.Intn(10)
	}
	for i := 0; i < n; i++ {
		h := 0
		if r.Bool(0.3) && !deep {
			h = 1
		}
		op := g.op(h)
		for j := range op.Txns {
			op.Txns[j].Bad = ""
			if deep && len(op.Txns[j].Refs)+len(op.Txns[j].Logs) == 0 {
				op.Txns[j].Refs = []RefSpec{{Name: g.names[r.Intn(len(g.names))], Kind: RefVal}}
			}
		}
		spec.Setup = append(spec.Setup, op)
	}
	// make the target handle current in most instances (a stale target is a no-op target)
	if r.Bool(0.85) {
		spec.Setup = append(spec.Setup, OpSpec{Kind: OpUpToDate, H: 0}, OpSpec{Kind: OpReopen, H: 0, Auto: autoT})
	}
	// target
	kind := crashTargets[r.Intn(len(crashTargets))]
	if deep && r.Bool(0.5) {
		kind = OpAddMulti
	}
	p.W = map[string]int{kind: 1}
	top := g.op(0)
	for j := range top.Txns {
		top.Txns[j].Bad = ""
		if len(top.Txns[j].Refs)+len(top.Txns[j].Logs) == 0 {
			top.Txns[j].Refs = []RefSpec{{Name: g.names[0], Kind: RefVal}}
		}
	}
	tops := []OpSpec{top}
	if r.Bool(0.3) {
		// crash in a later operation: the first one has returned success
		p.W = map[string]int{OpAdd: 3, OpCompactAll: 1, OpClean: 1}
		o2 := g.op(0)
		for j := range o2.Txns {
			o2.Txns[j].Bad = ""
		}
		tops = append(tops, o2)
	}
	spec.Tasks = []TaskSpec{{Name: "target", Ops: tops}}
	// survivor (possibly stale) and restart
	tx1, tx2 := g.txn(), g.txn()
	tx1.Bad, tx2.Bad = "", ""
	surv := []OpSpec{{Kind: OpRead, H: 1}}
	if r.Bool(0.4) {
		// the operator removes the lock file the dead process left behind
		surv = append(surv, OpSpec{Kind: OpRmLock, H: 1})
		if r.Bool(0.5) {
			surv = append(surv, OpSpec{Kind: OpUpToDate, H: 1}, OpSpec{Kind: OpReopen, H: 1, Auto: auto1})
		}
	}
	// two Adds, and possibly CompactAll and Clean, in any order (Clean may
	// come first, while the left-overs of the crash are newer than the stack)
	mid := []OpSpec{{Kind: OpAdd, H: 1, Txns: []TxnSpec{tx1}}, {Kind: OpAdd, H: 1, Txns: []TxnSpec{tx2}}}
	if r.Bool(0.5) {
		mid = append(mid, OpSpec{Kind: OpCompactAll, H: 1})
	}
	if r.Bool(0.5) {
		mid = append(mid, OpSpec{Kind: OpClean, H: 1})
	}
	for i := len(mid) - 1; i > 0; i-- {
		j := r.Intn(i + 1)
		mid[i], mid[j] = mid[j], mid[i]
	}
	surv = append(surv, mid...)
	surv = append(surv, OpSpec{Kind: OpRead, H: 1}, OpSpec{Kind: OpClose, H: 1})
	spec.After = []TaskSpec{{Name: "survivor", Ops: surv}}
	return spec
}

// ExecCrashEnum runs the base spec once to count the target's K
// filesystem calls, then once per crash point.
func ExecCrashEnum(base *RunSpec, opts RunOpts) *RunResult {
	res := Execute(base, opts)
	if len(res.Violations) > 0 && firstOf(res, opts.StopOn) != nil {
		res.Sub = 1
		return res
	}
	k := 0
	if len(res.TaskSteps) > 1 {
		k = res.TaskSteps[1]
	}
	total := res
	total.Sub = 1
	target := base.Tasks[0].Ops[0].Kind
	for step := 1; step <= k; step++ {
		c := cloneSpec(base)
		c.Faults = []simrt.Fault{{Kind: simrt.FaultCrash, Task: 1, Step: step}}
		r := Execute(c, opts)
		total.Sub++
		total.Steps += r.Steps
		total.Events += r.Events
		total.SimTimeNS += r.SimTimeNS
		total.Crashes += r.Crashes
		for p, n := range r.Probes {
			total.Probes[p] += n
		}
		for p, n := range r.Counters {
			total.Counters[p] += n
		}
		for p, n := range r.CallCounts {
			total.CallCounts[p] += n
		}
		for _, cp := range r.World.CrashPoints {
			total.Keys = append(total.Keys, simrt.HashStr(0, target+"|"+cp))
			total.Probes["crash-at-"+cp]++
		}
		if firstOf(r, opts.StopOn) != nil {
			r.Sub = total.Sub
			r.Keys = total.Keys
			r.Probes = total.Probes
			return r
		}
		for _, v := range r.Violations {
			total.Violations = append(total.Violations, v)
		}
	}
	total.Probes[fmt.Sprintf("target-%s", target)]++
	return total
}
