package harness

import (
	"bytes"
	"encoding/binary"
	"encoding/json"
	"fmt"
	"hash/crc32"
	"math"
	"os"
	"path/filepath"
	"runtime/debug"
	"runtime/metrics"
	"strings"

	"verifsim/reftable"
	"verifsim/simrt"
)

// S-CORRUPT (C18): a valid table (real Writer, seeded records, all
// layouts) is stored on the simulated disk and hit by 1-8 storage faults;
// then NewReader, full scans, seeks and RefsFor run on the damaged bytes.
// Every call must return: a panic, an iteration or read budget overrun, or
// an allocation out of proportion is a violation.

type Mutation struct {
	Kind string `json:"kind"` // flip | set | trunc | zero | splice | u24 | footer-field | header-sync | crcfix | extend | redirect | varint
	Off  int    `json:"off,omitempty"`
	Len  int    `json:"len,omitempty"`
	Val  uint64 `json:"val,omitempty"`
	Src  int    `json:"src,omitempty"`
}

type ReadFault struct {
	Call int    `json:"call"`
	Kind string `json:"kind"` // short | error | empty
}

type CorruptSpec struct {
	TableSeed  uint64      `json:"table_seed"`
	NRefs      int         `json:"n_refs"`
	NLogs      int         `json:"n_logs"`
	Muts       []Mutation  `json:"mutations"`
	Mode       string      `json:"mode"` // bytes | faulty | stack
	ReadFaults []ReadFault `json:"read_faults,omitempty"`
	MinIdx     uint64      `json:"min_idx"`
}

// BuildTable writes a valid table with seeded records.
func BuildTable(seed uint64, cfg CfgSpec, nrefs, nlogs int, minIdx uint64) ([]byte, []Ref, []Log, error) {
	return BuildTableShadowing(seed, cfg, nrefs, nlogs, minIdx, 0)
}

// BuildTableShadowing: logBase > 0 makes the table's reflog records carry
// update indices logBase, logBase+1 (those of an older table: rewritten
// entries, every third one a deletion) instead of the table's own.
func BuildTableShadowing(seed uint64, cfg CfgSpec, nrefs, nlogs int, minIdx uint64, logBase uint64) ([]byte, []Ref, []Log, error) {
	r := simrt.NewRng(seed, "table")
	hs := cfg.HashSize()
	rc := reftable.Config{Unaligned: cfg.Unaligned, BlockSize: cfg.BlockSize, SkipIndexObjects: cfg.SkipIndexObjects, RestartInterval: cfg.Restart, ExactLogMessage: cfg.ExactLog}
	if cfg.Hash == "s256" {
		rc.HashID = reftable.SHA256ID
	} else {
		rc.HashID = reftable.SHA1ID
	}
	buf := &bytes.Buffer{}
	w, err := reftable.NewWriter(buf, &rc)
	if err != nil {
		return nil, nil, nil, err
	}
	span := uint64(1 + r.Intn(3))
	w.SetLimits(minIdx, minIdx+span-1)
	nameWidth := 3
	if nrefs > 999 {
		nameWidth = 5
	}
	var refs []Ref
	for i := 0; i < nrefs; i++ {
		rec := Ref{Name: fmt.Sprintf("refs/heads/n%0*d", nameWidth, i), Idx: minIdx + uint64(r.Intn(int(span)))}
		switch x := r.Intn(10); {
		case x < 1:
			rec.Kind = RefDel
		case x < 6:
			rec.Kind = RefVal
			rec.Value = SharedOid(1+r.Intn(4), hs)
			if r.Bool(0.5) {
				rec.Value = UniqValue(int(seed%1000), rec.Name, "v", hs)
			}
		case x < 8:
			rec.Kind = RefPeeled
			rec.Value = UniqValue(int(seed%1000), rec.Name, "v", hs)
			rec.Peeled = SharedOid(1+r.Intn(4), hs)
		default:
			rec.Kind = RefSym
			rec.Target = fmt.Sprintf("refs/heads/n%0*d", nameWidth, 0)
		}
		rr := toRefRecord(rec)
		if err := w.AddRef(&rr); err != nil {
			return nil, nil, nil, err
		}
		refs = append(refs, rec)
	}
	var logs []Log
	for i := 0; i < nlogs; i++ {
		lb := minIdx
		if logBase > 0 {
			lb = logBase
		}
		l := Log{Name: fmt.Sprintf("refs/heads/n%0*d", nameWidth, i/2), Idx: lb + uint64(1-i%2), Old: UniqValue(i, "o", "", hs), New: UniqValue(i, "n", "", hs), Who: "A U Thor", Email: "a@b", Time: 100 + uint64(i), TZ: 60, Msg: "msg"}
		if logBase > 0 && i%3 == 2 {
			l = Log{Name: l.Name, Idx: l.Idx, Del: true}
		}
		lr := toLogRecord(l)
		if err := w.AddLog(&lr); err != nil {
			return nil, nil, nil, err
		}
		logs = append(logs, l)
	}
	if err := w.Close(); err != nil {
		return nil, nil, nil, err
	}
	return buf.Bytes(), refs, logs, nil
}

func fixCRC(b []byte) {
	if len(b) < 24+68 {
		return
	}
	fsz := 68
	if b[4] == 2 {
		fsz = 72
	}
	if len(b) < fsz {
		return
	}
	foot := b[len(b)-fsz:]
	binary.BigEndian.PutUint32(foot[fsz-4:], crc32.ChecksumIEEE(foot[:fsz-4]))
}

// ApplyMutations damages a copy of the table.
func ApplyMutations(orig []byte, muts []Mutation, other []byte) []byte {
	b := append([]byte(nil), orig...)
	for _, m := range muts {
		n := len(b)
		if n == 0 && m.Kind != "extend" {
			break
		}
		switch m.Kind {
		case "flip":
			b[m.Off%n] ^= 1 << (m.Val & 7)
		case "set":
			b[m.Off%n] = byte(m.Val)
		case "trunc":
			b = b[:m.Off%(n+1)]
		case "extend":
			b = append(b, make([]byte, 1+m.Len%200)...)
		case "zero":
			o := (m.Off % n) &^ 63
			for i := o; i < o+m.Len && i < n; i++ {
				b[i] = 0
			}
		case "splice":
			src := b
			if m.Val&1 == 1 && len(other) > 0 {
				src = other
			}
			s := m.Src % len(src)
			o := m.Off % n
			l := m.Len
			for i := 0; i < l && o+i < n && s+i < len(src); i++ {
				b[o+i] = src[s+i]
			}
		case "u24":
			o := m.Off % n
			if o+3 <= n {
				b[o] = byte(m.Val >> 16)
				b[o+1] = byte(m.Val >> 8)
				b[o+2] = byte(m.Val)
			}
		case "u16":
			o := m.Off % n
			if o+2 <= n {
				b[o] = byte(m.Val >> 8)
				b[o+1] = byte(m.Val)
			}
		case "footer-field":
			hsz, fsz := 24, 68
			if n > 4 && b[4] == 2 {
				hsz, fsz = 28, 72
			}
			if n >= fsz {
				f := b[n-fsz+hsz:]
				binary.BigEndian.PutUint64(f[8*(m.Off%5):], m.Val)
				fixCRC(b)
			}
		case "header-sync":
			hsz, fsz := 24, 68
			if n > 4 && b[4] == 2 {
				hsz, fsz = 28, 72
			}
			if n >= fsz+hsz {
				copy(b[n-fsz:n-fsz+hsz], b[:hsz])
				fixCRC(b)
			}
		case "crcfix":
			fixCRC(b)
		case "redirect":
			redirectOffset(b, m)
		case "varint":
			// a k-byte varint (k = 2..5) of the largest or smallest value
			// that needs k bytes, written over whatever is there - half of
			// the time inside the object section, whose records carry
			// varint counts and position deltas
			k := 2 + m.Len%4
			o := m.Off % n
			if m.Val&1 == 1 {
				if ci, err := ValidateContainer(b); err == nil && ci.ObjOff > 0 {
					end := uint64(n)
					for _, e := range []uint64{ci.ObjIndexOff, ci.LogOff, ci.LogIndexOff} {
						if e > ci.ObjOff && e < end {
							end = e
						}
					}
					if end > ci.ObjOff {
						o = int(ci.ObjOff) + m.Off%int(end-ci.ObjOff)
					}
				}
			}
			for i := 0; i < k && o+i < n; i++ {
				v := byte(0xff)
				if m.Val&2 == 2 {
					v = 0x80
				}
				if i == k-1 {
					v &= 0x7f
				}
				b[o+i] = v
			}
		}
	}
	return b
}

// gitVarint is the format's offset varint (most significant group first,
// each continuation group stored minus one), written from the format
// description.
func gitVarint(v uint64) []byte {
	var d [10]byte
	i := 9
	d[i] = byte(v & 0x7f)
	i--
	for {
		v >>= 7
		if v == 0 {
			break
		}
		v--
		d[i] = 0x80 | byte(v&0x7f)
		i--
	}
	return append([]byte(nil), d[i+1:]...)
}

// redirectOffset rewrites one stored block position (an index entry, an
// object record's position list) to the position of another block of the
// same file - in a quarter of the cases the block that holds the entry
// itself, which makes the index cyclic. The varint keeps its length, so
// nothing else moves. Aligned tables only (block positions are multiples of
// the block size).
func redirectOffset(b []byte, m Mutation) {
	n := len(b)
	if n < 24+68 {
		return
	}
	bs := int(b[5])<<16 | int(b[6])<<8 | int(b[7])
	if bs < 64 || bs > n {
		return
	}
	nblocks := n / bs
	if nblocks < 3 {
		return
	}
	type occ struct{ pos, l int }
	var occs []occ
	// stored positions of blocks 1.. are at least two varint bytes long
	for k := 1; k < nblocks && len(occs) < 4096; k++ {
		enc := gitVarint(uint64(k * bs))
		from := 0
		for {
			i := bytes.Index(b[from:], enc)
			if i < 0 {
				break
			}
			occs = append(occs, occ{from + i, len(enc)})
			from += i + 1
			if len(occs) >= 4096 {
				break
			}
		}
	}
	if len(occs) == 0 {
		return
	}
	o := occs[m.Off%len(occs)]
	target := (m.Src % nblocks) * bs
	if m.Val&3 == 0 {
		target = (o.pos / bs) * bs // the block holding the entry
	}
	enc := gitVarint(uint64(target))
	if len(enc) != o.l {
		return
	}
	copy(b[o.pos:], enc)
}

// GenCorrupt draws a damaged-table case.
func GenCorrupt(prop string, seed uint64) *RunSpec {
	r := simrt.NewRng(seed, "workload")
	p := &Profile{SmallBlocks: true}
	cfg := GenCfg(simrt.NewRng(seed, "config"), p)
	if cfg.BlockSize == 128 {
		cfg.BlockSize = 256
	}
	cs := CorruptSpec{TableSeed: r.U64(), NRefs: r.Pick(0, 1, 3, 8, 20, 60), NLogs: r.Pick(0, 0, 2, 6, 20), MinIdx: uint64(r.Pick(0, 1, 5))}
	if cs.NRefs+cs.NLogs == 0 {
		cs.NRefs = 2
	}
	bigTable := r.Bool(0.03)
	if bigTable {
		// enough records for multi-level indexes with small blocks
		cs.NRefs = 300 + r.Intn(1500)
		cs.NLogs = r.Pick(0, 20, 300)
	}
	cs.Mode = []string{"bytes", "bytes", "faulty", "stack"}[r.Intn(4)]
	nm := 1 + r.Intn(8)
	if r.Bool(0.3) {
		nm = 1
	}
	big := 1 << 20
	for i := 0; i < nm; i++ {
		m := Mutation{Off: r.Intn(big), Len: r.Intn(300), Val: r.U64(), Src: r.Intn(big)}
		switch x := r.Intn(20); {
		case x < 5:
			m.Kind = "flip"
		case x < 8:
			m.Kind = "set"
			if r.Bool(0.5) {
				m.Val = uint64(r.Pick(0, 0xff, 0x80, 0x7f, 'r', 'g', 'i', 'o'))
			}
		case x < 10:
			m.Kind = "trunc"
		case x < 11:
			m.Kind = "zero"
		case x < 13:
			m.Kind = "splice"
		case x < 15:
			m.Kind = "u24"
			// aim at structured places: file header block size, first block length
			m.Off = r.Pick(5, 25, 29, r.Intn(big))
			m.Val = uint64(r.Pick(0, 1, 3, 0xffffff, 0x10000, r.Intn(1<<24)))
		case x < 16:
			m.Kind = "u16"
			m.Val = uint64(r.Pick(0, 1, 0xffff, 0x8000, r.Intn(1<<16)))
		case x < 18:
			m.Kind = "footer-field"
			m.Off = r.Intn(5)
			m.Val = []uint64{0, 1, 24, 28, 1 << 40, math.MaxUint64, uint64(r.Intn(5000)), uint64(r.Intn(5000)) << 5}[r.Intn(8)]
		case x < 19:
			m.Kind = "header-sync"
		default:
			m.Kind = "extend"
		}
		if (bigTable && r.Bool(0.6)) || r.Bool(0.04) {
			m.Kind = "redirect"
		} else if r.Bool(0.06) {
			m.Kind = "varint"
		}
		cs.Muts = append(cs.Muts, m)
	}
	if r.Bool(0.5) {
		cs.Muts = append(cs.Muts, Mutation{Kind: "crcfix"})
	}
	if r.Bool(0.2) {
		cs.Muts = append(cs.Muts, Mutation{Kind: "header-sync"})
	}
	if cs.Mode == "faulty" {
		for i := 0; i < r.Intn(3); i++ {
			cs.ReadFaults = append(cs.ReadFaults, ReadFault{Call: r.Intn(12), Kind: []string{"short", "error", "empty"}[r.Intn(3)]})
		}
	}
	b, _ := json.Marshal(cs)
	raw := json.RawMessage(b)
	return &RunSpec{Property: prop, Scenario: "S-CORRUPT", Seed: seed, Cfg: cfg, Sched: SchedSpec{Mode: "sequential"}, Extra: &raw, NoFinal: true}
}

// faultySource is the simulated disk seen through the BlockSource seam:
// it clamps like a file, counts calls and bytes, and injects transient
// read faults.
type faultySource struct {
	b      []byte
	calls  int
	bytes  int64
	maxReq int
	faults []ReadFault
	fired  map[string]int
}

var errInjected = fmt.Errorf("injected read error")

func (s *faultySource) Size() uint64 { return uint64(len(s.b)) }
func (s *faultySource) Close() error { return nil }
func (s *faultySource) ReadBlock(off uint64, size int) ([]byte, error) {
	s.calls++
	if size > s.maxReq {
		s.maxReq = size
	}
	if size < 0 {
		return nil, fmt.Errorf("negative size")
	}
	if off >= uint64(len(s.b)) {
		return nil, fmt.Errorf("EOF")
	}
	end := off + uint64(size)
	if end > uint64(len(s.b)) || end < off {
		end = uint64(len(s.b))
	}
	out := append([]byte(nil), s.b[off:end]...)
	for _, f := range s.faults {
		if f.Call == s.calls {
			s.fired[f.Kind]++
			switch f.Kind {
			case "error":
				return nil, errInjected
			case "short":
				out = out[:len(out)/2]
			case "empty":
				out = out[:0]
			}
		}
	}
	s.bytes += int64(len(out))
	sourceBytes += int64(len(out))
	return out, nil
}

// countingBytes wraps the library's own ByteBlockSource semantics (no
// clamping: that is what the statement's observation point uses).
type countingBytes struct {
	reftable.ByteBlockSource
	calls int
	bytes int64
}

func (s *countingBytes) ReadBlock(off uint64, sz int) ([]byte, error) {
	s.calls++
	b, err := s.ByteBlockSource.ReadBlock(off, sz)
	s.bytes += int64(len(b))
	sourceBytes += int64(len(b))
	return b, err
}

const corruptIterCap = 1 << 16

// allocation by a single API call (the simulator runs one call at a time)
var maxCallAlloc uint64
var maxCallAllocLabel string

var allocSample = []metrics.Sample{{Name: "/gc/heap/allocs:bytes"}}

// deliveredBytes: bytes handed to the library by the storage seam so far
// (descriptor reads of the simulated disk + the harness' own block sources).
var sourceBytes int64

func deliveredBytes() int64 { return simrt.ReadBytes + sourceBytes }

func allocBytes() uint64 {
	metrics.Read(allocSample)
	return allocSample[0].Value.Uint64()
}

func drainCap(next func() (bool, error)) (int, error) {
	for n := 0; ; n++ {
		ok, err := next()
		if err != nil || !ok {
			return n, err
		}
		if n > corruptIterCap {
			return n, fmt.Errorf("HANG: iteration yields more than %d records", corruptIterCap)
		}
	}
}

// readWorkload exercises a table; it returns a violation description ("" if clean).
func readWorkload(tab reftable.Table, hs int, names []string) (what, site string) {
	run := func(label string, f func() error) bool {
		var err error
		a0, r0 := allocBytes(), deliveredBytes()
		defer func() {
			// what the call allocated, net of (a multiple of) the bytes the
			// storage seam delivered to it meanwhile: a file-backed source
			// allocates every block it reads, so a call that legitimately
			// reads much also allocates much in total; what must stay small
			// is allocation that no read accounts for
			d := allocBytes() - a0
			if rd := uint64(deliveredBytes()-r0) * 8; rd < d {
				d -= rd
			} else {
				d = 0
			}
			if d > maxCallAlloc {
				maxCallAlloc = d
				maxCallAllocLabel = label
			}
		}()
		func() {
			defer func() {
				if r := recover(); r != nil {
					what = fmt.Sprintf("%s panicked: %v", label, r)
					site = "panic/" + panicSite(string(debug.Stack()))
				}
			}()
			err = f()
		}()
		if what != "" {
			return false
		}
		if err != nil && strings.HasPrefix(err.Error(), "HANG") {
			what = label + ": " + err.Error()
			site = "no-termination/" + label
			return false
		}
		return true
	}
	scanRefs := func(k string) func() error {
		return func() error {
			it, err := tab.SeekRef(k)
			if err != nil {
				return nil
			}
			_, err = drainCap(func() (bool, error) { var r reftable.RefRecord; return it.NextRef(&r) })
			return err
		}
	}
	scanLogs := func(k string, u uint64) func() error {
		return func() error {
			it, err := tab.SeekLog(k, u)
			if err != nil {
				return nil
			}
			_, err = drainCap(func() (bool, error) { var r reftable.LogRecord; return it.NextLog(&r) })
			return err
		}
	}
	if !run("scan-refs", scanRefs("")) {
		return
	}
	if !run("scan-logs", scanLogs("", math.MaxUint64)) {
		return
	}
	for _, k := range names {
		if !run("seek-ref", scanRefs(k)) {
			return
		}
		if !run("seek-log", scanLogs(k, 5)) {
			return
		}
	}
	for tag := 1; tag <= 3; tag++ {
		oid := SharedOid(tag, hs)
		if !run("refs-for", func() error {
			it, err := tab.RefsFor(oid)
			if err != nil {
				return nil
			}
			_, err = drainCap(func() (bool, error) { var r reftable.RefRecord; return it.NextRef(&r) })
			return err
		}) {
			return
		}
	}
	return "", ""
}

func ExecuteCorrupt(spec *RunSpec, opts RunOpts) *RunResult {
	var cs CorruptSpec
	if spec.Extra == nil || json.Unmarshal(*spec.Extra, &cs) != nil {
		panic("S-CORRUPT spec without payload")
	}
	res := &RunResult{Spec: spec, Probes: map[string]int{}, Counters: map[string]int{}, CallCounts: map[string]int{}}
	viol := func(mon, sig, detail string) {
		res.Violations = append(res.Violations, Violation{Property: "C18", Monitor: mon, Signature: "C18/" + mon + "/" + sig, Detail: detail})
	}
	orig, _, _, err := BuildTable(cs.TableSeed, spec.Cfg, cs.NRefs, cs.NLogs, cs.MinIdx)
	if err != nil {
		// the generator asked for something outside the writer's domain
		res.Probes["corrupt-unbuildable"]++
		return res
	}
	other, _, _, _ := BuildTable(cs.TableSeed^0x55, spec.Cfg, 5, 2, cs.MinIdx+10)
	dam := ApplyMutations(orig, cs.Muts, other)
	for _, m := range cs.Muts {
		res.Counters["fault."+m.Kind]++
	}
	if bytes.Equal(dam, orig) {
		res.Probes["corrupt-noop"]++
	}
	hs := spec.Cfg.HashSize()
	names := []string{"refs/heads/n000", "refs/heads/n00", "refs/heads/n010", "refs/heads/n059", "refs/heads/n999", "a", "zzzz", "refs/heads/n003\x00"}
	maxCallAlloc, maxCallAllocLabel = 0, ""
	calls, rbytes, maxReq := 0, int64(0), 0
	switch cs.Mode {
	case "stack":
		fs := simrt.NewMemFS()
		sim := simrt.NewSim(spec.Seed, fs)
		sim.MaxSteps = 1 << 30
		simrt.G = sim
		t := sim.NewTask("reader", func(t *simrt.Task) {
			fs.MkdirAll(DBDir)
			lo, _, _, e1 := BuildTable(cs.TableSeed^0x77, spec.Cfg, 4, 2, 1)
			hi, _, _, e2 := BuildTable(cs.TableSeed^0x99, spec.Cfg, 4, 2, cs.MinIdx+40)
			if e1 != nil || e2 != nil {
				return
			}
			// damaged table in the middle; its name carries the intended range
			files := map[string][]byte{"0x000000000001-0x000000000003-00000001.ref": lo, "0x000000000010-0x000000000012-00000002.ref": dam, "0x000000000040-0x000000000042-00000003.ref": hi}
			var list []string
			for _, n := range []string{"0x000000000001-0x000000000003-00000001.ref", "0x000000000010-0x000000000012-00000002.ref", "0x000000000040-0x000000000042-00000003.ref"} {
				h, _ := fs.OpenFile(filepath.Join(DBDir, n), os.O_WRONLY|os.O_CREATE|os.O_TRUNC, 0644)
				h.Write(files[n])
				h.Close()
				list = append(list, n)
			}
			h, _ := fs.OpenFile(listPath(), os.O_WRONLY|os.O_CREATE|os.O_TRUNC, 0644)
			h.Write([]byte(strings.Join(list, "\n")))
			h.Close()
			var st *reftable.Stack
			var err error
			func() {
				defer func() {
					if r := recover(); r != nil {
						viol("panic", "newstack/"+panicSite(string(debug.Stack())), fmt.Sprintf("NewStack over a directory with a damaged table panicked: %v", r))
					}
				}()
				rc := reftable.Config{}
				if spec.Cfg.Hash == "s256" {
					rc.HashID = reftable.SHA256ID
				}
				st, err = reftable.NewStack(DBDir, rc)
			}()
			if st == nil || err != nil {
				res.Probes["corrupt-open-rejected"]++
				return
			}
			res.Probes["corrupt-open-accepted"]++
			if what, site := readWorkload(st.Merged(), hs, names); what != "" {
				viol(strings.SplitN(site, "/", 2)[0], "stack/"+strings.SplitN(site, "/", 2)[1], what)
			}
			closeQuiet(st)
		})
		rc0, rb0 := simrt.ReadCalls, simrt.ReadBytes
		sim.RunPhase([]*simrt.Task{t}, simrt.Sequential{})
		calls, rbytes = int(simrt.ReadCalls-rc0), simrt.ReadBytes-rb0
		if t.Panic != nil {
			viol("panic", "harness", fmt.Sprint(t.Panic))
		}
		sim.KillAll()
		simrt.G = nil
		res.Steps = sim.Steps
	default:
		var src reftable.BlockSource
		var fsrc *faultySource
		var bsrc *countingBytes
		if cs.Mode == "faulty" {
			fsrc = &faultySource{b: dam, faults: cs.ReadFaults, fired: map[string]int{}}
			src = fsrc
		} else {
			bsrc = &countingBytes{ByteBlockSource: reftable.ByteBlockSource{Source: dam}}
			src = bsrc
		}
		var rd *reftable.Reader
		var err error
		func() {
			defer func() {
				if r := recover(); r != nil {
					viol("panic", "newreader/"+panicSite(string(debug.Stack())), fmt.Sprintf("NewReader panicked on %d damaged bytes: %v", len(dam), r))
				}
			}()
			rd, err = reftable.NewReader(src, "damaged")
		}()
		if len(res.Violations) == 0 {
			if rd == nil || err != nil {
				res.Probes["corrupt-open-rejected"]++
			} else {
				res.Probes["corrupt-open-accepted"]++
				if what, site := readWorkload(rd, hs, names); what != "" {
					f := strings.SplitN(site, "/", 2)
					viol(f[0], f[1], what)
				}
			}
		}
		if fsrc != nil {
			calls, rbytes, maxReq = fsrc.calls, fsrc.bytes, fsrc.maxReq
			for k, n := range fsrc.fired {
				res.Counters["fault.read-"+k] += n
			}
		} else {
			calls, rbytes = bsrc.calls, bsrc.bytes
		}
	}
	sz := int64(len(dam)) + 1
	if len(res.Violations) == 0 {
		// a read returns at most the rest of the file, so the byte budget
		// follows from the call budget (a separate, tighter byte budget
		// flagged a terminating scan of a table whose declared block size
		// exceeded the file: every block read returned the whole file)
		if callBudget := 5000 + sz*20; int64(calls) > callBudget || rbytes > callBudget*sz {
			viol("read-budget", "calls", fmt.Sprintf("%d ReadBlock calls returning %d bytes for a %d-byte table", calls, rbytes, len(dam)))
		} else if maxCallAlloc > (64<<20)+uint64(sz)*1000 {
			viol("allocation", maxCallAllocLabel, fmt.Sprintf("a single %s call allocated %d bytes while reading a %d-byte table", maxCallAllocLabel, maxCallAlloc, len(dam)))
		} else if maxReq > 64<<20 {
			viol("allocation", "request", fmt.Sprintf("a single ReadBlock request of %d bytes for a %d-byte table", maxReq, len(dam)))
		}
	}
	if maxCallAlloc > 1<<20 {
		res.Probes["corrupt-call-allocated-over-1MiB"]++
	}
	res.Probes["corrupt-mode-"+cs.Mode]++
	res.Interleave = simrt.HashStr(uint64(len(dam)), string(dam))
	res.LogHash = fmt.Sprintf("%016x", res.Interleave)
	res.CallCounts["readblock"] = calls
	return res
}
