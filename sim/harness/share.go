package harness

import (
	"encoding/json"
	"fmt"
	"math"
	"os"
	"os/exec"
	"path/filepath"
	"strings"
	"syscall"
	"time"

	"verifsim/reftable"
	"verifsim/simrt"
)

// S-SHARE (C19): one Reader (over a simulated-disk BlockSource and over a
// file on the simulated filesystem) or one Merged shared by 2-8 reader
// tasks, interleaved at every ReadBlock / ReadAt. Each task's result
// sequence must equal the result of running its program alone on a
// separate, fresh instance. A second, race-detector build runs the same
// seeded programs on free-running goroutines (S-SHARE-RACE).

type ShareOp struct {
	Kind string `json:"kind"` // scan-refs | scan-logs | seek-ref | seek-log | refs-for
	Key  string `json:"key,omitempty"`
	Idx  uint64 `json:"idx,omitempty"`
	Tag  int    `json:"tag,omitempty"`
}

type ShareSpec struct {
	TableSeed uint64      `json:"table_seed"`
	NRefs     int         `json:"n_refs"`
	NLogs     int         `json:"n_logs"`
	Target    string      `json:"target"` // reader-bytes | reader-file | merged | stack
	Programs  [][]ShareOp `json:"programs"`
}

func GenShare(prop string, seed uint64) *RunSpec {
	r := simrt.NewRng(seed, "workload")
	p := &Profile{SmallBlocks: true}
	cfg := GenCfg(simrt.NewRng(seed, "config"), p)
	if cfg.BlockSize == 128 {
		cfg.BlockSize = 256
	}
	ss := ShareSpec{TableSeed: r.U64(), NRefs: r.Pick(5, 30, 80, 150), NLogs: r.Pick(0, 6, 30), Target: []string{"reader-bytes", "reader-file", "merged", "stack"}[r.Intn(4)]}
	nt := 2 + r.Intn(7)
	for t := 0; t < nt; t++ {
		var prog []ShareOp
		n := 1 + r.Intn(5)
		for i := 0; i < n; i++ {
			op := ShareOp{Key: fmt.Sprintf("refs/heads/n%03d", r.Intn(ss.NRefs+3)), Idx: uint64(r.Intn(4)), Tag: 1 + r.Intn(4)}
			op.Kind = []string{"scan-refs", "scan-logs", "seek-ref", "seek-ref", "seek-log", "refs-for", "refs-for"}[r.Intn(7)]
			prog = append(prog, op)
		}
		ss.Programs = append(ss.Programs, prog)
	}
	b, _ := json.Marshal(ss)
	raw := json.RawMessage(b)
	s := &RunSpec{Property: prop, Scenario: "S-SHARE", Seed: seed, Cfg: cfg, Extra: &raw, NoFinal: true}
	s.Sched = schedSpec(simrt.NewRng(seed, "schedcfg"), 200)
	s.Sched.LocalP = 1
	return s
}

// GenShareStmt: the same cases, interleaved at statement granularity; the
// schedulers get a step estimate that matches the much longer runs, and
// smaller tables keep a run at some 10^4-10^5 steps.
func GenShareStmt(prop string, seed uint64) *RunSpec {
	s := GenShare(prop, seed)
	s.Scenario = "S-SHARE-STMT"
	ss := ShareSpecOf(s)
	if ss.NRefs > 30 {
		ss.NRefs = 30
	}
	if len(ss.Programs) > 4 {
		ss.Programs = ss.Programs[:4]
	}
	b, _ := json.Marshal(ss)
	raw := json.RawMessage(b)
	s.Extra = &raw
	s.Sched.EstLen = 20000
	return s
}

// RunShareOp executes one op and renders its result canonically.
func RunShareOp(tab reftable.Table, op ShareOp, hs int) (out string) {
	defer func() {
		if r := recover(); r != nil {
			out = fmt.Sprintf("PANIC %v", r)
		}
	}()
	var sb strings.Builder
	switch op.Kind {
	case "scan-refs", "seek-ref":
		k := op.Key
		if op.Kind == "scan-refs" {
			k = ""
		}
		it, err := tab.SeekRef(k)
		if err != nil {
			return "ERR " + err.Error()
		}
		rs, err := drainRefs(it)
		if err != nil {
			return "ERR " + err.Error()
		}
		for _, r := range rs {
			sb.WriteString(r.String())
			sb.WriteByte('\n')
		}
	case "scan-logs", "seek-log":
		k, u := op.Key, op.Idx
		if op.Kind == "scan-logs" {
			k, u = "", math.MaxUint64
		}
		it, err := tab.SeekLog(k, u)
		if err != nil {
			return "ERR " + err.Error()
		}
		ls, err := drainLogs(it)
		if err != nil {
			return "ERR " + err.Error()
		}
		for _, l := range ls {
			sb.WriteString(l.String())
			sb.WriteByte('\n')
		}
	case "refs-for":
		it, err := tab.RefsFor(SharedOid(op.Tag, hs))
		if err != nil {
			return "ERR " + err.Error()
		}
		rs, err := drainRefs(it)
		if err != nil {
			return "ERR " + err.Error()
		}
		for _, r := range rs {
			sb.WriteString(r.String())
			sb.WriteByte('\n')
		}
	}
	return fmt.Sprintf("%d:%016x", sb.Len(), simrt.HashStr(7, sb.String()))
}

// yieldingSource is the simulated disk behind the BlockSource seam: every
// ReadBlock is a scheduling point.
type yieldingSource struct{ b []byte }

func (s *yieldingSource) Size() uint64 { return uint64(len(s.b)) }
func (s *yieldingSource) Close() error { return nil }
func (s *yieldingSource) ReadBlock(off uint64, size int) ([]byte, error) {
	simrt.YieldPoint("readblock")
	if off >= uint64(len(s.b)) {
		return nil, fmt.Errorf("EOF")
	}
	end := off + uint64(size)
	if end > uint64(len(s.b)) {
		end = uint64(len(s.b))
	}
	return append([]byte(nil), s.b[off:end]...), nil
}

// ShareTables builds the three tables of a share case.
func ShareTables(ss *ShareSpec, cfg CfgSpec) ([][]byte, error) {
	var out [][]byte
	for i, min := range []uint64{1, 10, 20} {
		n := ss.NRefs
		if i > 0 {
			n = n/3 + 1
		}
		// the newer tables also rewrite and delete reflog entries of the
		// oldest one (same keys: the merged log view has to shadow them)
		lb := uint64(0)
		if i > 0 && ss.TableSeed&1 == 1 {
			lb = 1
		}
		b, _, _, err := BuildTableShadowing(ss.TableSeed+uint64(i)*977, cfg, n, ss.NLogs/(i+1), min, lb)
		if err != nil {
			return nil, err
		}
		out = append(out, b)
	}
	return out, nil
}

func ExecuteShare(spec *RunSpec, opts RunOpts) *RunResult {
	if spec.Scenario == "S-SHARE-RACE" {
		return ExecuteShareRace(spec, opts)
	}
	stmt := spec.Scenario == "S-SHARE-STMT"
	defer func() { simrt.StmtYields = false }()
	var ss ShareSpec
	if spec.Extra == nil || json.Unmarshal(*spec.Extra, &ss) != nil {
		panic("S-SHARE spec without payload")
	}
	res := &RunResult{Spec: spec, Probes: map[string]int{}, Counters: map[string]int{}, CallCounts: map[string]int{}}
	viol := func(mon, sig, detail string) {
		res.Violations = append(res.Violations, Violation{Property: "C19", Monitor: mon, Signature: "C19/" + mon + "/" + sig, Detail: detail})
	}
	tabs, err := ShareTables(&ss, spec.Cfg)
	if err != nil {
		res.Probes["share-unbuildable"]++
		return res
	}
	hs := spec.Cfg.HashSize()
	hid := reftable.SHA1ID
	if spec.Cfg.Hash == "s256" {
		hid = reftable.SHA256ID
	}
	fs := simrt.NewMemFS()
	sim := simrt.NewSim(spec.Seed, fs)
	sim.KeepLog = opts.KeepLog
	simrt.G = sim
	defer func() { simrt.G = nil }()
	fs.MkdirAll(DBDir)
	names := []string{"0x000000000001-0x000000000003-aaaaaaaa.ref", "0x00000000000a-0x00000000000c-bbbbbbbb.ref", "0x000000000014-0x000000000016-cccccccc.ref"}
	for i, n := range names {
		h, _ := fs.OpenFile(filepath.Join(DBDir, n), os.O_WRONLY|os.O_CREATE|os.O_TRUNC, 0644)
		h.Write(tabs[i])
		h.Close()
	}
	h, _ := fs.OpenFile(listPath(), os.O_WRONLY|os.O_CREATE|os.O_TRUNC, 0644)
	h.Write([]byte(strings.Join(names, "\n")))
	h.Close()

	// build(fresh) makes an instance of the shared object; called once for
	// the shared instance and once per task for the reference instances.
	var closers []func()
	build := func(yielding bool) (reftable.Table, error) {
		mk := func(i int) (*reftable.Reader, error) {
			if yielding {
				return reftable.NewReader(&yieldingSource{tabs[i]}, names[i])
			}
			return reftable.NewReader(&reftable.ByteBlockSource{Source: tabs[i]}, names[i])
		}
		switch ss.Target {
		case "reader-bytes":
			return mk(0)
		case "reader-file":
			bs, err := reftable.NewFileBlockSource(filepath.Join(DBDir, names[0]))
			if err != nil {
				return nil, err
			}
			rd, err := reftable.NewReader(bs, names[0])
			if err == nil {
				closers = append(closers, rd.Close)
			}
			return rd, err
		case "merged":
			var ts []reftable.Table
			for i := range tabs {
				rd, err := mk(i)
				if err != nil {
					return nil, err
				}
				ts = append(ts, rd)
			}
			return reftable.NewMerged(ts, hid)
		default:
			rc := reftable.Config{HashID: hid}
			st, err := reftable.NewStack(DBDir, rc)
			if err != nil {
				return nil, err
			}
			closers = append(closers, func() { closeQuiet(st) })
			return st.Merged(), nil
		}
	}
	// expected results: each program alone, on its own fresh instance
	// (a separate instance, so that nothing cached by the run under test
	// can mask a defect)
	expected := make([][]string, len(ss.Programs))
	got := make([][]string, len(ss.Programs))
	var shared reftable.Table
	prep := sim.NewTask("prepare", func(t *simrt.Task) {
		t.Quiet(func() {
			for i, prog := range ss.Programs {
				ref, err := build(false)
				if err != nil {
					viol("build", "reference", err.Error())
					return
				}
				for _, op := range prog {
					expected[i] = append(expected[i], RunShareOp(ref, op, hs))
				}
			}
			var err error
			shared, err = build(true)
			if err != nil {
				viol("build", "shared", err.Error())
			}
		})
	})
	sim.RunPhase([]*simrt.Task{prep}, simrt.Sequential{})
	if prep.Panic != nil {
		panic(fmt.Sprintf("harness panic: %v\n%s", prep.Panic, prep.PanicStack))
	}
	if len(res.Violations) > 0 || shared == nil {
		sim.KillAll()
		return res
	}
	var tasks []*simrt.Task
	for i := range ss.Programs {
		i := i
		tasks = append(tasks, sim.NewTask(fmt.Sprintf("reader%d", i), func(t *simrt.Task) {
			for _, op := range ss.Programs[i] {
				got[i] = append(got[i], RunShareOp(shared, op, hs))
			}
		}))
	}
	sim.Sched = nil
	if stmt {
		// statement-level interleaving: every statement of the library is a
		// scheduling point (binary built by `rewrite -yields`)
		sim.MaxSteps = 20000000
		simrt.StmtYields = true
	}
	var strat simrt.Strategy
	if spec.Sched.Mode == "replay" {
		strat = &simrt.Replay{Segs: spec.Sched.Segs}
	} else {
		strat = &simrt.Random{Rng: simrt.NewRng(spec.Seed, "schedule"), Mode: spec.Sched.Mode, StickP: spec.Sched.StickP, LocalP: 1, Depth: spec.Sched.Depth, EstLen: spec.Sched.EstLen}
	}
	sim.RunPhase(tasks, strat)
	simrt.StmtYields = false
	if sim.Budget {
		viol("no-termination", ss.Target, fmt.Sprintf("concurrent readers did not finish within %d scheduler steps (each program alone terminates)", sim.MaxSteps))
	}
	res.Segs = sim.Sched
	res.Probes["share-stmt-yields"] += sim.StmtSteps
	for _, t := range tasks {
		if t.Panic != nil {
			viol("panic", "reader-task", fmt.Sprint(t.Panic))
		}
	}
	sim.KillAll()
	for i := range ss.Programs {
		for j := range ss.Programs[i] {
			if j >= len(got[i]) {
				break
			}
			if got[i][j] != expected[i][j] {
				op := ss.Programs[i][j]
				viol("result-mismatch", ss.Target+"/"+op.Kind, fmt.Sprintf("task %d op %d (%s %q): concurrent result %s, alone %s", i, j, op.Kind, op.Key, got[i][j], expected[i][j]))
				break
			}
			if strings.HasPrefix(got[i][j], "PANIC") || strings.HasPrefix(got[i][j], "ERR") {
				viol("read-failed", ss.Target+"/"+op2(ss.Programs[i][j]), got[i][j])
			}
		}
	}
	for _, c := range closers {
		c()
	}
	res.Steps = sim.Steps
	res.Events = sim.EventCount()
	res.SimTimeNS = sim.Now
	res.LogHash = fmt.Sprintf("%016x", sim.Hash)
	res.Probes["share-target-"+ss.Target]++
	res.Probes["share-tasks"] += len(ss.Programs)
	ih := uint64(0)
	for _, sg := range res.Segs {
		ih = simrt.Mix64(ih ^ uint64(sg.Task)<<32 ^ uint64(sg.Steps))
	}
	res.Interleave = simrt.Mix64(ih ^ spec.Seed)
	return res
}

func op2(o ShareOp) string { return o.Kind }

// ---------------------------------------------------------------- race build

type RaceSpec struct {
	First uint64 `json:"first_seed"`
	Count int    `json:"count"`
}

func GenShareRace(prop string, seed uint64, count int) *RunSpec {
	b, _ := json.Marshal(RaceSpec{First: seed, Count: count})
	raw := json.RawMessage(b)
	return &RunSpec{Property: prop, Scenario: "S-SHARE-RACE", Seed: seed, Extra: &raw, NoFinal: true, Sched: SchedSpec{Mode: "sequential"}}
}

// ExecuteShareRace runs the race-detector binary (unrewritten library
// sources, real os, free-running goroutines) on Count seeded cases.
func ExecuteShareRace(spec *RunSpec, opts RunOpts) *RunResult {
	var rs RaceSpec
	json.Unmarshal(*spec.Extra, &rs)
	res := &RunResult{Spec: spec, Probes: map[string]int{}, Counters: map[string]int{}, CallCounts: map[string]int{}}
	bin := os.Getenv("VERIF_RACEBIN")
	if bin == "" {
		panic("VERIF_RACEBIN not set: the race-detector binary is built by bin/check")
	}
	// Race-detector processes do not scale on this VM beyond two at a time
	// (measured: 16 concurrent ones take 15x longer than 16 in pairs), so a
	// two-slot cross-process semaphore (flock) serialises them.
	release := acquireRaceSlot(bin)
	cmd := exec.Command(bin, fmt.Sprint(rs.First), fmt.Sprint(rs.Count))
	cmd.Env = append(os.Environ(), "GORACE=halt_on_error=1 exitcode=66", "GOMAXPROCS=4", "GOGC=1000")
	out, err := cmd.CombinedOutput()
	release()
	ec := 0
	if ee, ok := err.(*exec.ExitError); ok {
		ec = ee.ExitCode()
	} else if err != nil {
		panic(fmt.Sprintf("cannot run race binary: %v", err))
	}
	txt := string(out)
	res.Sub = rs.Count
	res.Probes["race-cases"] += rs.Count
	switch {
	case ec == 66 || strings.Contains(txt, "WARNING: DATA RACE"):
		site := "?"
		for _, l := range strings.Split(txt, "\n") {
			l = strings.TrimSpace(l)
			if strings.Contains(l, "reftable.") && !strings.Contains(l, "harness") {
				site = l
				if i := strings.Index(site, "reftable."); i >= 0 {
					site = site[i+len("reftable."):]
				}
				if i := strings.Index(site, "("); i > 0 && !strings.HasPrefix(site, "(") {
					site = site[:i]
				}
				break
			}
		}
		if len(txt) > 1500 {
			txt = txt[:1500]
		}
		res.Violations = append(res.Violations, Violation{Property: "C19", Monitor: "data-race", Signature: "C19/data-race/" + site, Detail: txt})
	case ec != 0:
		if len(txt) > 1500 {
			txt = txt[len(txt)-1500:]
		}
		mon := "result-mismatch"
		if strings.Contains(txt, "fatal error") {
			mon = "fatal"
		}
		res.Violations = append(res.Violations, Violation{Property: "C19", Monitor: mon, Signature: "C19/" + mon + "/race-build", Detail: txt})
	}
	res.Interleave = simrt.Mix64(rs.First)
	res.LogHash = "n/a"
	return res
}

// ShareSpecOf extracts the payload of an S-SHARE spec.
func ShareSpecOf(spec *RunSpec) *ShareSpec {
	var ss ShareSpec
	json.Unmarshal(*spec.Extra, &ss)
	return &ss
}

func acquireRaceSlot(bin string) func() {
	// blocking flock on one of two slot files (chosen by pid): the kernel
	// queues waiters, so nobody starves; the time spent waiting does not
	// count towards the per-run watchdog.
	f, err := os.OpenFile(fmt.Sprintf("%s.slot%d", bin, os.Getpid()%2), os.O_CREATE|os.O_RDWR, 0644)
	if err != nil {
		return func() {}
	}
	for syscall.Flock(int(f.Fd()), syscall.LOCK_EX) != nil {
		time.Sleep(50 * time.Millisecond)
	}
	if ResetRunClock != nil {
		ResetRunClock()
	}
	return func() {
		syscall.Flock(int(f.Fd()), syscall.LOCK_UN)
		f.Close()
	}
}

// ResetRunClock is set by the worker: it restarts the per-run watchdog
// clock (used after waiting for a race-build slot).
var ResetRunClock func()
