module verifrewrite

go 1.23
