package harness

import (
	"bufio"
	"encoding/json"
	"flag"
	"fmt"
	"os"
	"os/exec"
	"path/filepath"
	"runtime"
	"sort"
	"strings"
	"sync"
	"sync/atomic"
	"syscall"
	"time"

	"verifsim/simrt"
)

// ExecuteAny dispatches on the scenario.
func ExecuteAny(spec *RunSpec, opts RunOpts) *RunResult {
	switch spec.Scenario {
	case "S-CORRUPT":
		return ExecuteCorrupt(spec, opts)
	case "S-SHARE", "S-SHARE-RACE", "S-SHARE-STMT":
		return ExecuteShare(spec, opts)
	case "S-GROW":
		return ExecuteGrow(spec, opts)
	}
	return Execute(spec, opts)
}

// KnownFinding is one entry of /verif/known_findings.json.
type KnownFinding struct {
	Status    string `json:"status"` // fixed | known
	Property  string `json:"property"`
	Commit    string `json:"commit,omitempty"`
	Signature string `json:"signature,omitempty"` // prefix of a violation signature (known entries)
	What      string `json:"what"`
	Line      string `json:"line"`
}

func loadKnown(verifDir string) []KnownFinding {
	b, err := os.ReadFile(filepath.Join(verifDir, "known_findings.json"))
	if err != nil {
		return nil
	}
	var f struct {
		Findings []KnownFinding `json:"findings"`
	}
	if err := json.Unmarshal(b, &f); err != nil {
		fmt.Fprintf(os.Stderr, "known_findings.json: %v\n", err)
		os.Exit(2)
	}
	return f.Findings
}

func matchKnown(kf []KnownFinding, v *Violation) *KnownFinding {
	for i := range kf {
		k := &kf[i]
		if k.Status == "known" && k.Property == v.Property && k.Signature != "" && strings.HasPrefix(v.Signature, k.Signature) {
			return k
		}
	}
	return nil
}

// Agg is what a worker reports.
type Agg struct {
	Runs       int                `json:"runs"`
	Nontrivial int                `json:"nontrivial"`
	Steps      int64              `json:"steps"`
	Events     int64              `json:"events"`
	SimNS      int64              `json:"sim_ns"`
	Probes     map[string]int     `json:"probes"`
	Faults     map[string]int     `json:"faults"`
	CallCounts map[string]int     `json:"calls"`
	Other      map[string]int     `json:"other"`
	Distinct   []uint64           `json:"distinct"`
	States     []uint64           `json:"states"`
	Samples    []json.RawMessage  `json:"samples"`
	PerPart    map[string][2]int  `json:"per_part"`
	Budget     int                `json:"budget"`
	MaxTables  int                `json:"max_tables"`
	Crashes    int                `json:"crashes"`
	Extra      map[string]float64 `json:"extra"`
	KnownHits  map[string]int     `json:"known_hits"`
	Tainted    int                `json:"tainted"`
}

func newAgg() *Agg {
	return &Agg{Probes: map[string]int{}, Faults: map[string]int{}, CallCounts: map[string]int{}, Other: map[string]int{},
		PerPart: map[string][2]int{}, Extra: map[string]float64{}, KnownHits: map[string]int{}}
}

func (a *Agg) merge(b *Agg) {
	a.Runs += b.Runs
	a.Nontrivial += b.Nontrivial
	a.Steps += b.Steps
	a.Events += b.Events
	a.SimNS += b.SimNS
	a.Budget += b.Budget
	a.Crashes += b.Crashes
	a.Tainted += b.Tainted
	if b.MaxTables > a.MaxTables {
		a.MaxTables = b.MaxTables
	}
	for k, v := range b.Probes {
		a.Probes[k] += v
	}
	for k, v := range b.Faults {
		a.Faults[k] += v
	}
	for k, v := range b.CallCounts {
		a.CallCounts[k] += v
	}
	for k, v := range b.Other {
		a.Other[k] += v
	}
	for k, v := range b.Extra {
		a.Extra[k] += v
	}
	for k, v := range b.KnownHits {
		a.KnownHits[k] += v
	}
	for k, v := range b.PerPart {
		x := a.PerPart[k]
		x[0] += v[0]
		x[1] += v[1]
		a.PerPart[k] = x
	}
	a.Distinct = append(a.Distinct, b.Distinct...)
	a.States = append(a.States, b.States...)
	if len(a.Samples) < 4 {
		a.Samples = append(a.Samples, b.Samples...)
	}
}

type planIndex struct {
	plan  *Plan
	tier  string
	total int
	start []int // first global index of each part
}

func indexPlan(p *Plan, tier string, scale float64) *planIndex {
	pi := &planIndex{plan: p, tier: tier}
	for _, part := range p.Parts {
		n := part.Quick
		if tier == "thorough" {
			n = part.Thorough
		}
		n = int(float64(n) * scale)
		if n < 1 {
			n = 1
		}
		pi.start = append(pi.start, pi.total)
		pi.total += n
	}
	return pi
}

func (pi *planIndex) partOf(i int) (*Part, int) {
	k := sort.Search(len(pi.start), func(j int) bool { return pi.start[j] > i }) - 1
	return &pi.plan.Parts[k], k
}

// RunSeed: run i is a pure function of (VERIF_SEED, property, i).
func RunSeed(seed uint64, prop string, i int) uint64 {
	return simrt.Hash4(seed, "run:"+prop, uint64(i), 0)
}

func sampleOf(spec *RunSpec, res *RunResult) json.RawMessage {
	type sample struct {
		Scenario string           `json:"scenario"`
		RunSeed  uint64           `json:"run_seed"`
		Cfg      CfgSpec          `json:"cfg"`
		Setup    int              `json:"setup_ops"`
		Tasks    []TaskSpec       `json:"tasks"`
		Faults   []simrt.Fault    `json:"faults,omitempty"`
		Sched    string           `json:"scheduler"`
		Segs     []simrt.Segment  `json:"schedule_segments,omitempty"`
		Steps    int              `json:"steps"`
		Versions int              `json:"list_versions"`
		Calls    map[string]int   `json:"calls"`
		Extra    *json.RawMessage `json:"extra,omitempty"`
	}
	s := sample{Scenario: spec.Scenario, RunSeed: spec.Seed, Cfg: spec.Cfg, Setup: len(spec.Setup), Tasks: spec.Tasks, Faults: spec.Faults,
		Sched: spec.Sched.Mode, Segs: res.Segs, Steps: res.Steps, Versions: res.Versions, Calls: res.CallCounts, Extra: spec.Extra}
	if len(s.Segs) > 40 {
		s.Segs = s.Segs[:40]
	}
	b, _ := json.Marshal(s)
	if len(b) > 20000 {
		s.Tasks = nil
		b, _ = json.Marshal(s)
	}
	return b
}

// ---------------------------------------------------------------- worker

type workerMsg struct {
	T      string      `json:"t"` // viol | known | agg | err
	I      int         `json:"i,omitempty"`
	Replay *ReplayFile `json:"replay,omitempty"`
	Sig    string      `json:"sig,omitempty"`
	Known  string      `json:"known,omitempty"`
	Agg    *Agg        `json:"agg,omitempty"`
	Err    string      `json:"err,omitempty"`
}

func buildReplay(prop string, spec *RunSpec, res *RunResult, v *Violation, from string) *ReplayFile {
	rf := &ReplayFile{Property: prop, Signature: v.Signature, Detail: v.Detail, LogHash: res.LogHash, Spec: *spec, MinimisedFrom: from}
	tr := res.Trace
	if len(tr) > 120 {
		tr = tr[len(tr)-120:]
	}
	rf.Trace = tr
	return rf
}

func workerMain(args []string) int {
	fs := flag.NewFlagSet("worker", flag.ExitOnError)
	prop := fs.String("prop", "", "")
	tier := fs.String("tier", "quick", "")
	seed := fs.Uint64("seed", 1, "")
	k := fs.Int("k", 0, "")
	n := fs.Int("n", 1, "")
	scale := fs.Float64("scale", 1, "")
	verif := fs.String("verif", "/verif", "")
	deadline := fs.Int64("deadline", 0, "unix seconds after which the worker stops starting runs")
	only := fs.Int("only", -1, "execute just this run index")
	fs.Parse(args)
	plan := Plans()[*prop]
	if plan == nil {
		fmt.Fprintf(os.Stderr, "no plan for %s\n", *prop)
		return 2
	}
	// one simulated process runs at a time anyway; a single P makes the
	// goroutine hand-off a cheap in-thread switch (5x faster). Results do
	// not depend on it (selftest-determinism runs with 1, 4 and 16).
	if os.Getenv("VERIF_GOMAXPROCS") == "" {
		runtime.GOMAXPROCS(1)
	}
	known := loadKnown(*verif)
	pi := indexPlan(plan, *tier, *scale)
	if plan.MemLimit > 0 {
		setMemLimit(plan.MemLimit)
	}
	var runStart atomic.Int64
	var runIdx atomic.Int64
	wd := plan.WatchdogS
	if wd == 0 {
		wd = 900
	}
	ResetRunClock = func() { runStart.Store(time.Now().Unix()) }
	go func() {
		for {
			time.Sleep(2 * time.Second)
			if st := runStart.Load(); st != 0 && time.Now().Unix()-st > int64(wd) {
				fmt.Fprintf(os.Stderr, "WATCHDOG: run %d exceeds %d s wall clock\n", runIdx.Load(), wd)
				os.Exit(3)
			}
		}
	}()
	out := bufio.NewWriter(os.Stdout)
	enc := json.NewEncoder(out)
	emit := func(m workerMsg) { enc.Encode(m); out.Flush() }
	agg := newAgg()
	distinct := map[uint64]bool{}
	states := map[uint64]bool{}
	viols := 0
	first, stride := *k, *n
	if *only >= 0 {
		first, stride = *only, pi.total
	}
	for i := first; i < pi.total; i += stride {
		runStart.Store(time.Now().Unix())
		runIdx.Store(int64(i))
		if *deadline > 0 && time.Now().Unix() > *deadline {
			agg.Extra["stopped_by_deadline"] = 1
			break
		}
		part, _ := pi.partOf(i)
		fmt.Fprintf(out, "{\"t\":\"run\",\"i\":%d}\n", i)
		out.Flush()
		rs := RunSeed(*seed, *prop, i)
		spec := part.Gen(rs)
		opts := part.Opts
		opts.StopOn = *prop
		var res *RunResult
		if part.Exec != nil {
			res = part.Exec(spec, opts)
		} else {
			res = ExecuteAny(spec, opts)
		}
		spec = res.Spec
		agg.Runs++
		if res.Sub > 1 {
			agg.Runs += res.Sub - 1
			agg.Extra["instances"]++
			agg.Extra["crash_points_enumerated"] += float64(res.Sub - 1)
		}
		agg.Steps += int64(res.Steps)
		agg.Events += int64(res.Events)
		agg.SimNS += res.SimTimeNS
		agg.Crashes += res.Crashes
		if res.Budget {
			agg.Budget++
		}
		if res.MaxTables > agg.MaxTables {
			agg.MaxTables = res.MaxTables
		}
		for p, c := range res.Probes {
			agg.Probes[p] += c
		}
		for p, c := range res.Counters {
			agg.Faults[p] += c
		}
		for p, c := range res.CallCounts {
			agg.CallCounts[p] += c
		}
		pp := agg.PerPart[part.Name]
		pp[0]++
		nt := plan.Nontrivial == nil || plan.Nontrivial(res)
		if nt {
			pp[1]++
			agg.Nontrivial++
			if len(res.Keys) > 0 {
				for _, k := range res.Keys {
					distinct[k] = true
				}
			} else if len(distinct) < 2000000 {
				distinct[res.Interleave] = true
			}
			if len(agg.Samples) < 2 {
				agg.Samples = append(agg.Samples, sampleOf(spec, res))
			}
		}
		agg.PerPart[part.Name] = pp
		if res.World != nil && len(states) < 2000000 {
			for h := range res.World.stateSet {
				states[h] = true
			}
		}
		for _, v := range res.Violations {
			if v.Property != *prop {
				agg.Other[v.Signature]++
			}
		}
		if v := firstOf(res, *prop); v != nil && os.Getenv("VERIF_SURVEY") != "" {
			agg.Other["SURVEY "+v.Signature]++
			if os.Getenv("VERIF_SURVEY") == "2" {
				fmt.Fprintf(os.Stderr, "SURVEY-RUN %d %s\n", i, v.Signature)
			}
			continue
		}
		if v := firstOf(res, *prop); v != nil {
			if kf := matchKnown(known, v); kf != nil {
				agg.KnownHits[kf.Line]++
				agg.Tainted++
				continue
			}
			viols++
			// minimise, then re-run with the log kept
			rp := ToReplay(spec, res)
			min, _ := Minimise(rp, *prop, v.Signature, part.Opts, 3000)
			o2 := part.Opts
			o2.StopOn = *prop
			o2.KeepLog = true
			r2 := ExecuteAny(min, o2)
			v2 := firstOf(r2, *prop)
			if v2 == nil || v2.Signature != v.Signature {
				// minimisation lost it (should not happen): report the original
				r2 = ExecuteAny(rp, o2)
				v2 = firstOf(r2, *prop)
				min = rp
				if v2 == nil {
					emit(workerMsg{T: "err", I: i, Err: fmt.Sprintf("NONDETERMINISM: run %d (seed %d) violated %s live but not on replay", i, rs, v.Signature)})
					continue
				}
			}
			emit(workerMsg{T: "viol", I: i, Sig: v2.Signature, Replay: buildReplay(*prop, min, r2, v2, fmt.Sprintf("VERIF_SEED=%d run=%d run_seed=%d", *seed, i, rs))})
			if viols >= 2 {
				break
			}
		}
	}
	for h := range distinct {
		agg.Distinct = append(agg.Distinct, h)
	}
	for h := range states {
		agg.States = append(agg.States, h)
	}
	emit(workerMsg{T: "agg", Agg: agg})
	return 0
}

// ---------------------------------------------------------------- replay

func replayMain(args []string) int {
	fs := flag.NewFlagSet("replay", flag.ExitOnError)
	real := fs.Bool("real", false, "pass-through: replay on a real temporary directory")
	verbose := fs.Bool("v", false, "print the event log")
	inproc := fs.Bool("inproc", false, "internal: execute in this process")
	fs.Parse(args)
	if fs.NArg() != 1 {
		fmt.Fprintln(os.Stderr, "usage: sim replay [--real] [-v] <file>")
		return 2
	}
	b, err := os.ReadFile(fs.Arg(0))
	if err != nil {
		fmt.Fprintln(os.Stderr, err)
		return 2
	}
	var rf ReplayFile
	if err := json.Unmarshal(b, &rf); err != nil {
		fmt.Fprintln(os.Stderr, err)
		return 2
	}
	if strings.Contains(rf.Signature, "/process-died/") && !*inproc {
		self, _ := os.Executable()
		cmd := exec.Command(self, "replay", "--inproc", fs.Arg(0))
		outb, err := cmd.CombinedOutput()
		ec := 0
		if ee, ok := err.(*exec.ExitError); ok {
			ec = ee.ExitCode()
		}
		if err != nil && ec != 1 && ec != 3 {
			tail := string(outb)
			if len(tail) > 600 {
				tail = tail[:600]
			}
			fmt.Printf("replay: the process died again (%v)\n%s\n", err, tail)
			fmt.Printf("VIOLATION property=%s replay=%s\n", rf.Property, fs.Arg(0))
			return 1
		}
		if ec == 3 {
			// the case did not kill the process this time, but executing it
			// alone shows another violation of the same property (typically
			// the allocation that exhausted the batch worker's memory fence)
			fmt.Printf("replay: the process survived, but the case violates %s by itself:\n%s", rf.Property, outb)
			fmt.Printf("VIOLATION property=%s replay=%s\n", rf.Property, fs.Arg(0))
			return 1
		}
		fmt.Printf("replay: the process survived (exit %d); recorded: %s\n%s", ec, rf.Signature, outb)
		return 0
	}
	if plan := Plans()[rf.Property]; plan != nil && plan.MemLimit > 0 {
		setMemLimit(plan.MemLimit)
	}
	if plan := Plans()[rf.Property]; plan != nil {
		wd := plan.WatchdogS
		if wd == 0 {
			wd = 900
		}
		go func() {
			time.Sleep(time.Duration(wd) * time.Second)
			fmt.Fprintf(os.Stderr, "WATCHDOG: replay exceeds %d s wall clock\n", wd)
			os.Exit(4)
		}()
	}
	opts := RunOpts{StopOn: rf.Property, KeepLog: true}
	if plan := Plans()[rf.Property]; plan != nil {
		for _, part := range plan.Parts {
			if strings.HasPrefix(part.Name, rf.Spec.Scenario) {
				opts.DeepReads = part.Opts.DeepReads
				opts.DeepRefsFor = part.Opts.DeepRefsFor
				opts.Porcupine = part.Opts.Porcupine
			}
		}
	}
	if *real {
		d, err := os.MkdirTemp("", "verif-real-")
		if err != nil {
			fmt.Fprintln(os.Stderr, err)
			return 2
		}
		defer os.RemoveAll(d)
		opts.RealDir = d
	}
	res := ExecuteAny(&rf.Spec, opts)
	if *verbose {
		for _, l := range res.Trace {
			fmt.Println(l)
		}
	}
	v := firstOf(res, rf.Property)
	if v == nil {
		fmt.Printf("replay: no violation of %s (recorded: %s)\n", rf.Property, rf.Signature)
		return 0
	}
	fmt.Printf("replay: %s\n        %s\n", v.Signature, v.Detail)
	if v.Signature != rf.Signature {
		fmt.Printf("replay: signature differs from the recorded one (%s)\n", rf.Signature)
		return 3
	}
	if !*real && res.LogHash != rf.LogHash {
		fmt.Printf("replay: event-log hash %s differs from the recorded %s\n", res.LogHash, rf.LogHash)
		return 3
	}
	fmt.Printf("VIOLATION property=%s replay=%s\n", rf.Property, fs.Arg(0))
	return 1
}

// ---------------------------------------------------------------- orchestrator

func checkMain(args []string) int {
	fs := flag.NewFlagSet("check", flag.ExitOnError)
	prop := fs.String("prop", "", "")
	tier := fs.String("tier", "quick", "")
	seed := fs.Uint64("seed", 1, "")
	verif := fs.String("verif", "/verif", "")
	workers := fs.Int("workers", 0, "")
	scale := fs.Float64("scale", 1, "")
	maxWall := fs.Int("max-wall", 0, "seconds; workers stop starting runs after this")
	fs.Parse(args)
	start := time.Now()
	if custom := customChecks[*prop]; custom != nil {
		return custom(*prop, *tier, *seed, *verif, *scale)
	}
	plan := Plans()[*prop]
	if plan == nil {
		fmt.Fprintf(os.Stderr, "check: no plan for property %q\n", *prop)
		return 2
	}
	nw := *workers
	if nw <= 0 {
		nw = runtime.NumCPU()
		if nw > 16 {
			nw = 16
		}
	}
	pi := indexPlan(plan, *tier, *scale)
	if pi.total < nw {
		nw = pi.total
	}
	if *maxWall == 0 {
		*maxWall = 600
		if *tier == "thorough" {
			*maxWall = 3 * 3600
		}
	}
	deadline := time.Now().Unix() + int64(*maxWall)
	self, _ := os.Executable()
	total := newAgg()
	var mu sync.Mutex
	var viols []*ReplayFile
	var errs []string
	type death struct {
		k, run int
		err    string
	}
	var deaths []death
	var wg sync.WaitGroup
	infra := false
	for k := 0; k < nw; k++ {
		wg.Add(1)
		go func(k int) {
			defer wg.Done()
			cmd := exec.Command(self, "worker", "--prop", *prop, "--tier", *tier, "--seed", fmt.Sprint(*seed), "--k", fmt.Sprint(k), "--n", fmt.Sprint(nw),
				"--scale", fmt.Sprint(*scale), "--verif", *verif, "--deadline", fmt.Sprint(deadline))
			cmd.Stderr = os.Stderr
			pipe, err := cmd.StdoutPipe()
			if err != nil {
				mu.Lock()
				infra = true
				mu.Unlock()
				return
			}
			if err := cmd.Start(); err != nil {
				mu.Lock()
				infra = true
				errs = append(errs, err.Error())
				mu.Unlock()
				return
			}
			sc := bufio.NewScanner(pipe)
			sc.Buffer(make([]byte, 1<<20), 1<<30)
			last := -1
			gotAgg := false
			for sc.Scan() {
				var m workerMsg
				if err := json.Unmarshal(sc.Bytes(), &m); err != nil {
					continue
				}
				switch m.T {
				case "run":
					last = m.I
				case "viol":
					mu.Lock()
					viols = append(viols, m.Replay)
					mu.Unlock()
				case "err":
					mu.Lock()
					errs = append(errs, m.Err)
					infra = true
					mu.Unlock()
				case "agg":
					mu.Lock()
					total.merge(m.Agg)
					gotAgg = true
					mu.Unlock()
				}
			}
			err = cmd.Wait()
			if err != nil || !gotAgg {
				mu.Lock()
				deaths = append(deaths, death{k, last, fmt.Sprint(err)})
				mu.Unlock()
			}
		}(k)
	}
	wg.Wait()
	// a worker that died is attributed to its journaled run, which is
	// re-executed alone in a fresh process to classify it.
	for _, d := range deaths {
		if d.run < 0 {
			infra = true
			errs = append(errs, fmt.Sprintf("worker %d died before its first run: %s", d.k, d.err))
			continue
		}
		cmd := exec.Command(self, "worker", "--prop", *prop, "--tier", *tier, "--seed", fmt.Sprint(*seed), "--only", fmt.Sprint(d.run),
			"--scale", fmt.Sprint(*scale), "--verif", *verif)
		outb, err := cmd.Output()
		got := false
		for _, line := range strings.Split(string(outb), "\n") {
			var m workerMsg
			if json.Unmarshal([]byte(line), &m) != nil {
				continue
			}
			switch m.T {
			case "viol":
				viols = append(viols, m.Replay)
			case "agg":
				got = true
			}
		}
		if err == nil && got {
			// did not reproduce alone: the death was not caused by this run deterministically
			infra = true
			errs = append(errs, fmt.Sprintf("worker %d died (%s) in run %d but the run completes when executed alone", d.k, d.err, d.run))
			continue
		}
		if plan.DeathIsViolation {
			part, _ := pi.partOf(d.run)
			spec := part.Gen(RunSeed(*seed, *prop, d.run))
			viols = append(viols, &ReplayFile{Property: *prop, Signature: *prop + "/process-died/" + spec.Scenario, Detail: fmt.Sprintf("the process executing this case died (%s; alone: %v): fatal runtime error, memory exhaustion under the %d MiB fence, or watchdog", d.err, err, plan.MemLimit>>20), Spec: *spec,
				MinimisedFrom: fmt.Sprintf("VERIF_SEED=%d run=%d (not minimised)", *seed, d.run)})
		} else {
			infra = true
			errs = append(errs, fmt.Sprintf("worker %d died (%s) in run %d (run seed %d), reproducibly", d.k, d.err, d.run, RunSeed(*seed, *prop, d.run)))
		}
	}
	wall := time.Since(start).Seconds()

	// report
	code := 0
	sort.Slice(viols, func(i, j int) bool { return viols[i].Signature < viols[j].Signature })
	seen := map[string]bool{}
	nviol := 0
	repDir := filepath.Join(outDir(*verif), "out", "replays")
	os.MkdirAll(repDir, 0755)
	for _, rf := range viols {
		if seen[rf.Signature] {
			continue
		}
		seen[rf.Signature] = true
		if nviol >= 5 {
			break
		}
		name := fmt.Sprintf("%s-%016x.json", *prop, simrt.HashStr(*seed, rf.Signature))
		path := filepath.Join(repDir, name)
		b, _ := json.MarshalIndent(rf, "", " ")
		os.WriteFile(path, b, 0644)
		// confirm in a fresh process
		out, err := exec.Command(self, "replay", path).CombinedOutput()
		ec := 0
		if ee, ok := err.(*exec.ExitError); ok {
			ec = ee.ExitCode()
		}
		if ec == 1 {
			fmt.Printf("%s\n    %s\n", rf.Signature, rf.Detail)
			switch rf.Spec.Scenario {
			case "S-TURN", "S-CONC", "S-CRASH-RAND", "S-CRASH-ENUM", "S-TIME", "S-IOERR", "S-IOERR-CONC":
				// pass-through: the same schedule, one call at a time, on a
				// real temporary directory (DESIGN 7.1 b)
				rerr := exec.Command(self, "replay", "--real", path).Run()
				rc := 0
				if ee, ok := rerr.(*exec.ExitError); ok {
					rc = ee.ExitCode()
				}
				if rc == 1 {
					fmt.Printf("    (replayed on the real filesystem through the pass-through back end: reproduced)\n")
				} else {
					fmt.Printf("    (replay on the real filesystem did NOT reproduce it (exit %d): possible disk-model discrepancy, inspect before believing)\n", rc)
				}
			}
			fmt.Printf("VIOLATION property=%s replay=%s\n", *prop, path)
			nviol++
			code = 1
		} else {
			fmt.Printf("NONDETERMINISM: %s did not reproduce in a fresh process (exit %d):\n%s\n", path, ec, out)
			infra = true
		}
	}
	var khits []string
	for line := range total.KnownHits {
		khits = append(khits, line)
	}
	sort.Strings(khits)
	for _, l := range khits {
		fmt.Printf("KNOWN-FINDING: property=%s %s\n", *prop, l)
	}
	for _, e := range errs {
		fmt.Fprintln(os.Stderr, "check:", e)
	}
	if os.Getenv("VERIF_SURVEY") != "" {
		var ks []string
		for k := range total.Other {
			if strings.HasPrefix(k, "SURVEY ") {
				ks = append(ks, k)
			}
		}
		sort.Strings(ks)
		for _, k := range ks {
			fmt.Printf("%7d %s\n", total.Other[k], k)
		}
		return 0
	}
	writeEvidence(*verif, plan, *tier, *seed, total, wall, nviol, nw)
	fmt.Printf("check %s tier=%s seed=%d: %d runs (%d non-trivial, %d distinct), %d steps, %.1fs wall, violations=%d\n",
		*prop, *tier, *seed, total.Runs, total.Nontrivial, countDistinct(total.Distinct), total.Steps, wall, nviol)
	if infra && code == 0 {
		return 2
	}
	return code
}

func countDistinct(xs []uint64) int {
	m := map[uint64]bool{}
	for _, x := range xs {
		m[x] = true
	}
	return len(m)
}

func writeEvidence(verif string, plan *Plan, tier string, seed uint64, a *Agg, wall float64, nviol int, workers int) {
	dn := countDistinct(a.Distinct)
	cov := map[string]interface{}{
		"evaluations":                         a.Runs,
		"distinct_nontrivial":                 dn,
		"rule":                                plan.Rule,
		"samples":                             a.Samples,
		"nontrivial_runs":                     a.Nontrivial,
		"runs_per_scenario":                   a.PerPart,
		"simulated_steps":                     a.Steps,
		"filesystem_events":                   a.Events,
		"simulated_time_s":                    float64(a.SimNS) / 1e9,
		"runs_per_hour":                       float64(a.Runs) / wall * 3600,
		"seeds_per_hour":                      float64(a.Runs) / wall * 3600,
		"fault_kinds_fired":                   a.Faults,
		"process_crashes":                     a.Crashes,
		"reach_probes":                        a.Probes,
		"api_calls_by_result":                 a.CallCounts,
		"distinct_states":                     countDistinct(a.States),
		"distinct_states_measure":             "distinct (tables.list length, multiset of path classes in the directory, per-handle staleness vector) sampled after every completed call",
		"distinct_interleavings_measure":      "distinct hashes of the shared-path filesystem event sequence projected to (task, call kind, path class, result), counted over non-trivial runs",
		"max_tables":                          a.MaxTables,
		"step_budget_exceeded":                a.Budget,
		"violations_of_other_properties_seen": a.Other,
		"known_finding_hits":                  a.KnownHits,
		"tainted_runs":                        a.Tainted,
		"workers":                             workers,
		"real_components":                     []string{"package reftable (stack, writer, reader, block, record, merged, refname) compiled from /repo's working tree", "compress/zlib", "hash/crc32"},
		"stub_components":                     []string{"os / io/ioutil filesystem calls (in-memory POSIX-subset disk)", "time (simulated clock)", "math/rand (hash-addressed name stream)", "process boundaries (goroutines resumed one at a time stand in for OS processes)"},
	}
	for k, v := range a.Extra {
		cov[k] = v
	}
	if len(a.Samples) == 0 {
		cov["samples"] = []string{"no non-trivial run in this batch"}
	}
	ev := map[string]interface{}{
		"property_id": plan.Prop,
		"tier":        tier,
		"seed":        seed,
		"level":       plan.Level,
		"coverage":    cov,
		"assumptions": append([]string{
			"the in-memory filesystem implements the POSIX subset faithfully (differential self-test against the kernel: bin/check selftest)",
			"processes share nothing but the directory, so interleaving at filesystem-call granularity is complete",
			"schedules, histories and fault placements are sampled, not enumerated",
		}, plan.Assumptions...),
		"wall_s":     wall,
		"violations": nviol,
	}
	b, _ := json.MarshalIndent(ev, "", " ")
	os.MkdirAll(filepath.Join(outDir(verif), "evidence"), 0755)
	os.WriteFile(filepath.Join(outDir(verif), "evidence", plan.Prop+".json"), b, 0644)
}

// outDir is where evidence and replay files go: /verif, unless VERIF_OUT
// names another directory (runs against seeded changes and mutants must not
// overwrite the evidence of the unchanged tree).
func outDir(verif string) string {
	if d := os.Getenv("VERIF_OUT"); d != "" {
		return d
	}
	return verif
}

// customChecks holds checks with their own drivers (C06, C17, C18, C19, selftests).
var customChecks = map[string]func(prop, tier string, seed uint64, verif string, scale float64) int{}

// Main is the entry point of the sim binary.
func Main(args []string) int {
	if len(args) == 0 {
		fmt.Fprintln(os.Stderr, "usage: sim check|worker|replay ...")
		return 2
	}
	switch args[0] {
	case "check":
		return checkMain(args[1:])
	case "worker":
		return workerMain(args[1:])
	case "replay":
		return replayMain(args[1:])
	case "dethash":
		return dethashMain(args[1:])
	case "selftest":
		return selftestMain(args[1:])
	}
	fmt.Fprintf(os.Stderr, "unknown command %q\n", args[0])
	return 2
}

func setMemLimit(bytes uint64) {
	lim := syscall.Rlimit{Cur: bytes, Max: bytes}
	syscall.Setrlimit(9 /* RLIMIT_AS */, &lim)
}
