// rewrite copies the non-test Go files of package reftable from a source
// tree into a scratch directory and mechanically creates the simulation
// seam (DESIGN.md section 3):
//
//  1. import substitution: os, io/ioutil, time, math/rand, path/filepath -> shim packages
//     (the local package name is kept, so no statement changes);
//  2. map-range determinisation: `for k, v := range m` over a map with an
//     ordered key type iterates simrt.Keys(m) with a presence re-check;
//  3. the accessor file sim_access.go is added.
//
// With -plain the files are copied unmodified apart from the accessor file
// (race-detector build).
package main

import (
	"bytes"
	"flag"
	"fmt"
	"go/ast"
	"go/importer"
	"go/parser"
	"go/token"
	"go/types"
	"os"
	"path/filepath"
	"sort"
	"strings"
)

var shimOf = map[string]string{
	"os":        "verifsim/shim/os",
	"io/ioutil": "verifsim/shim/ioutil",
	"time":      "verifsim/shim/time",
	"math/rand": "verifsim/shim/rand",
	// Glob, Walk, WalkDir, EvalSymlinks look at the disk: a change to the
	// library that starts using them must see the simulated one.
	"path/filepath": "verifsim/shim/filepath",
}

// packages through which a library change could reach the outside world
// around the shims
var uncovered = []string{"syscall", "os/exec", "os/signal", "os/user", "net", "crypto/rand", "plugin", "golang.org/x/sys", "unsafe"}

var defaultName = map[string]string{
	"os": "os", "io/ioutil": "ioutil", "time": "time", "math/rand": "rand", "path/filepath": "filepath",
}

type edit struct {
	start, end int
	text       string
}

func die(code int, f string, a ...interface{}) {
	fmt.Fprintf(os.Stderr, "rewrite: "+f+"\n", a...)
	os.Exit(code)
}

func simple(e ast.Expr) bool {
	switch x := e.(type) {
	case *ast.Ident:
		return true
	case *ast.SelectorExpr:
		return simple(x.X)
	case *ast.ParenExpr:
		return simple(x.X)
	case *ast.StarExpr:
		return simple(x.X)
	case *ast.IndexExpr:
		return simple(x.X) && simple(x.Index)
	case *ast.BasicLit:
		return true
	}
	return false
}

func main() {
	src := flag.String("src", "/repo", "source tree (package reftable in its root)")
	out := flag.String("out", "", "output directory")
	access := flag.String("access", "", "accessor file to add (optional)")
	plain := flag.Bool("plain", false, "copy without rewriting")
	withTests := flag.Bool("tests", false, "also rewrite *_test.go (self-test: repository suite on the shim)")
	yields := flag.Bool("yields", false, "insert a scheduler yield point before every statement of the library (statement-level interleaving for shared-reader scenarios)")
	flag.Parse()
	if *out == "" {
		die(2, "-out required")
	}
	if err := os.MkdirAll(*out, 0755); err != nil {
		die(2, "%v", err)
	}
	ents, err := os.ReadDir(*src)
	if err != nil {
		die(2, "%v", err)
	}
	fset := token.NewFileSet()
	var files []*ast.File
	var names []string
	srcs := map[string][]byte{}
	for _, e := range ents {
		n := e.Name()
		if e.IsDir() || !strings.HasSuffix(n, ".go") {
			continue
		}
		if strings.HasSuffix(n, "_test.go") && !*withTests {
			continue
		}
		b, err := os.ReadFile(filepath.Join(*src, n))
		if err != nil {
			die(2, "%v", err)
		}
		if *plain {
			if err := os.WriteFile(filepath.Join(*out, n), b, 0644); err != nil {
				die(2, "%v", err)
			}
			continue
		}
		f, err := parser.ParseFile(fset, n, b, parser.ParseComments)
		if err != nil {
			die(2, "parse: %v", err)
		}
		if f.Name.Name != "reftable" {
			continue
		}
		files = append(files, f)
		names = append(names, n)
		srcs[n] = b
	}
	if !*plain {
		info := &types.Info{Types: map[ast.Expr]types.TypeAndValue{}}
		conf := types.Config{Importer: importer.ForCompiler(fset, "source", nil), Error: func(err error) {}}
		// Type errors do not stop the rewrite (the subsequent go build
		// reports them properly); we only need the types of range operands.
		conf.Check("reftable", fset, files, info)
		nrange := 0
		for i, f := range files {
			n := names[i]
			b := srcs[n]
			isTest := strings.HasSuffix(n, "_test.go")
			var edits []edit
			off := func(p token.Pos) int { return fset.Position(p).Offset }
			if !isTest {
				// Loud rather than silently wrong: sources of nondeterminism or
				// I/O that no shim covers make the simulation meaningless for
				// this tree (infrastructure failure, exit 2 - never a verdict).
				for _, imp := range f.Imports {
					path := strings.Trim(imp.Path.Value, "\"`")
					for _, bad := range uncovered {
						if path == bad || strings.HasPrefix(path, bad+"/") {
							die(2, "%s imports %q, which the simulation seam does not cover (os, io/ioutil, path/filepath, time and math/rand are simulated); nothing can be decided about this tree", n, path)
						}
					}
				}
				ast.Inspect(f, func(nd ast.Node) bool {
					if g, ok := nd.(*ast.GoStmt); ok {
						die(2, "%s:%d starts a goroutine inside the library: the simulator resumes one simulated process at a time and does not control goroutines the library creates itself; nothing can be decided about this tree", n, fset.Position(g.Pos()).Line)
					}
					return true
				})
			}
			for _, imp := range f.Imports {
				path := strings.Trim(imp.Path.Value, "\"`")
				if isTest && path == "math/rand" {
					// test files hand *rand.Rand to testing/quick
					continue
				}
				if shim, ok := shimOf[path]; ok {
					name := defaultName[path]
					if imp.Name != nil {
						name = imp.Name.Name
					}
					start := off(imp.Path.Pos())
					if imp.Name != nil {
						start = off(imp.Name.Pos())
					}
					edits = append(edits, edit{start, off(imp.Path.End()), fmt.Sprintf("%s %q", name, shim)})
				}
			}
			needSimrt := false
			ctr := 0
			ast.Inspect(f, func(nd ast.Node) bool {
				rs, ok := nd.(*ast.RangeStmt)
				if !ok {
					return true
				}
				tv, ok := info.Types[rs.X]
				if !ok || tv.Type == nil {
					return true
				}
				mt, ok := tv.Type.Underlying().(*types.Map)
				if !ok {
					return true
				}
				pos := fset.Position(rs.Pos())
				if isTest {
					// test code is not part of the simulated system
					return true
				}
				bt, ok := mt.Key().Underlying().(*types.Basic)
				if !ok || bt.Info()&types.IsOrdered == 0 {
					die(2, "%s: range over map with unordered key type %s cannot be made deterministic", pos, mt.Key())
				}
				if rs.Tok == token.ASSIGN {
					die(2, "%s: range over map with '=' not supported by the rewriter", pos)
				}
				if !simple(rs.X) {
					die(2, "%s: range over a non-trivial map expression not supported by the rewriter", pos)
				}
				ctr++
				nrange++
				needSimrt = true
				mtxt := string(b[off(rs.X.Pos()):off(rs.X.End())])
				kname := fmt.Sprintf("simk__%d", ctr)
				if id, ok := rs.Key.(*ast.Ident); ok && id.Name != "_" {
					kname = id.Name
				}
				okname := fmt.Sprintf("simok__%d", ctr)
				vname := "_"
				if id, ok := rs.Value.(*ast.Ident); ok && id.Name != "_" {
					vname = id.Name
				}
				hdrStart := off(rs.For) + len("for")
				edits = append(edits, edit{hdrStart, off(rs.X.End()),
					fmt.Sprintf(" _, %s := range simrt__.Keys(%s)", kname, mtxt)})
				ins := fmt.Sprintf(" %s, %s := %s[%s]; if !%s { continue }; _ = %s;", vname, okname, mtxt, kname, okname, kname)
				if vname == "_" {
					ins = fmt.Sprintf(" if _, %s := %s[%s]; !%s { continue }; _ = %s;", okname, mtxt, kname, okname, kname)
				}
				lb := off(rs.Body.Lbrace) + 1
				edits = append(edits, edit{lb, lb, ins})
				return true
			})
			if *yields && !isTest {
				ins := func(list []ast.Stmt) {
					for _, st := range list {
						switch st.(type) {
						case *ast.CaseClause, *ast.CommClause:
							continue // the "statements" of a switch/select body
						}
						o := off(st.Pos())
						edits = append(edits, edit{o, o, "simrt__.Y(); "})
						needSimrt = true
					}
				}
				ast.Inspect(f, func(nd ast.Node) bool {
					switch x := nd.(type) {
					case *ast.BlockStmt:
						ins(x.List)
					case *ast.CaseClause:
						ins(x.Body)
					case *ast.CommClause:
						ins(x.Body)
					}
					return true
				})
			}
			if needSimrt {
				e := off(f.Name.End())
				edits = append(edits, edit{e, e, "; import simrt__ \"verifsim/simrt\""})
			}
			sort.Slice(edits, func(a, c int) bool { return edits[a].start > edits[c].start })
			res := append([]byte(nil), b...)
			for _, e := range edits {
				var nb bytes.Buffer
				nb.Write(res[:e.start])
				nb.WriteString(e.text)
				nb.Write(res[e.end:])
				res = nb.Bytes()
			}
			if err := os.WriteFile(filepath.Join(*out, n), res, 0644); err != nil {
				die(2, "%v", err)
			}
		}
		fmt.Fprintf(os.Stderr, "rewrite: %d files, %d map ranges determinised\n", len(files), nrange)
	}
	if *access != "" {
		b, err := os.ReadFile(*access)
		if err != nil {
			die(2, "%v", err)
		}
		if err := os.WriteFile(filepath.Join(*out, "sim_access.go"), b, 0644); err != nil {
			die(2, "%v", err)
		}
	}
}
