package harness

import (
	"encoding/json"
	"time"

	"verifsim/simrt"
)

func cloneSpec(s *RunSpec) *RunSpec {
	b, err := json.Marshal(s)
	if err != nil {
		panic(err)
	}
	var c RunSpec
	if err := json.Unmarshal(b, &c); err != nil {
		panic(err)
	}
	return &c
}

// firstOf returns the first violation of the property (nil if none).
func firstOf(r *RunResult, prop string) *Violation {
	for i := range r.Violations {
		if r.Violations[i].Property == prop {
			return &r.Violations[i]
		}
	}
	return nil
}

// ToReplay turns a finished live run into a replayable spec (explicit
// schedule segments).
func ToReplay(spec *RunSpec, res *RunResult) *RunSpec {
	c := cloneSpec(spec)
	if spec.Scenario == "S-CORRUPT" || spec.Scenario == "S-SHARE" {
		return c
	}
	if c.Sched.Mode != "sequential" && c.Sched.Mode != "" {
		c.Sched = SchedSpec{Mode: "replay", Segs: append([]simrt.Segment(nil), res.Segs...), Bias: nil}
	}
	return c
}

// Minimise shrinks a failing replayable spec while the same signature
// keeps firing (delta debugging, greedy one-at-a-time passes to a fixpoint).
// budget bounds the number of re-executions.
func Minimise(spec *RunSpec, prop, sig string, opts RunOpts, budget int) (*RunSpec, int) {
	execs := 0
	opts.StopOn = prop
	opts.KeepLog = false
	deadline := time.Now().Add(90 * time.Second)
	test := func(c *RunSpec) bool {
		if execs >= budget || time.Now().After(deadline) {
			return false
		}
		execs++
		r := ExecuteAny(c, opts)
		v := firstOf(r, prop)
		return v != nil && v.Signature == sig
	}
	cur := cloneSpec(spec)
	if !test(cur) {
		return spec, execs
	}
	try := func(mut func(c *RunSpec) bool) bool {
		c := cloneSpec(cur)
		if !mut(c) {
			return false
		}
		if test(c) {
			cur = c
			return true
		}
		return false
	}
	taskLists := func(c *RunSpec) []*[]OpSpec {
		var ls []*[]OpSpec
		ls = append(ls, &c.Setup)
		for i := range c.Tasks {
			ls = append(ls, &c.Tasks[i].Ops)
		}
		for i := range c.After {
			ls = append(ls, &c.After[i].Ops)
		}
		return ls
	}
	if cur.Scenario == "S-CORRUPT" && cur.Extra != nil {
		// fewest faults, smallest table
		get := func(c *RunSpec) *CorruptSpec {
			var cs CorruptSpec
			json.Unmarshal(*c.Extra, &cs)
			return &cs
		}
		put := func(c *RunSpec, cs *CorruptSpec) {
			b, _ := json.Marshal(cs)
			raw := json.RawMessage(b)
			c.Extra = &raw
		}
		for again := true; again && execs < budget; {
			again = false
			for i := len(get(cur).Muts) - 1; i >= 0; i-- {
				again = try(func(c *RunSpec) bool {
					cs := get(c)
					if i >= len(cs.Muts) {
						return false
					}
					cs.Muts = append(cs.Muts[:i], cs.Muts[i+1:]...)
					put(c, cs)
					return true
				}) || again
			}
			for _, f := range []func(cs *CorruptSpec) bool{
				func(cs *CorruptSpec) bool {
					if cs.NLogs == 0 {
						return false
					}
					cs.NLogs /= 2
					return true
				},
				func(cs *CorruptSpec) bool {
					if cs.NRefs <= 1 {
						return false
					}
					cs.NRefs /= 2
					return true
				},
				func(cs *CorruptSpec) bool {
					if len(cs.ReadFaults) == 0 {
						return false
					}
					cs.ReadFaults = cs.ReadFaults[:len(cs.ReadFaults)-1]
					return true
				},
				func(cs *CorruptSpec) bool {
					if cs.Mode == "bytes" {
						return false
					}
					cs.Mode = "bytes"
					return true
				},
			} {
				again = try(func(c *RunSpec) bool {
					cs := get(c)
					if !f(cs) {
						return false
					}
					put(c, cs)
					return true
				}) || again
			}
		}
	}
	if (cur.Scenario == "S-SHARE" || cur.Scenario == "S-SHARE-STMT") && cur.Extra != nil {
		get := func(c *RunSpec) *ShareSpec { return ShareSpecOf(c) }
		put := func(c *RunSpec, ss *ShareSpec) {
			b, _ := json.Marshal(ss)
			raw := json.RawMessage(b)
			c.Extra = &raw
		}
		// empty whole programs (the task slots stay, so ids are stable), then single ops
		for i := len(get(cur).Programs) - 1; i >= 0; i-- {
			try(func(c *RunSpec) bool {
				ss := get(c)
				if len(ss.Programs[i]) == 0 {
					return false
				}
				ss.Programs[i] = nil
				put(c, ss)
				return true
			})
		}
		for i := range get(cur).Programs {
			for j := len(get(cur).Programs[i]) - 1; j >= 0; j-- {
				try(func(c *RunSpec) bool {
					ss := get(c)
					if j >= len(ss.Programs[i]) {
						return false
					}
					ss.Programs[i] = append(ss.Programs[i][:j], ss.Programs[i][j+1:]...)
					put(c, ss)
					return true
				})
			}
		}
		try(func(c *RunSpec) bool {
			ss := get(c)
			if ss.NLogs == 0 && ss.NRefs <= 5 {
				return false
			}
			if ss.NRefs > 5 {
				ss.NRefs = 5
			}
			put(c, ss)
			return true
		})
	}
	// long schedules: remove chunks of segments (halves, quarters, ...) before single ones
	if cur.Sched.Mode == "replay" && len(cur.Sched.Segs) > 40 {
		for chunk := len(cur.Sched.Segs) / 2; chunk >= 8; chunk /= 2 {
			for start := 0; start < len(cur.Sched.Segs); {
				ok := try(func(c *RunSpec) bool {
					if start >= len(c.Sched.Segs) {
						return false
					}
					end := start + chunk
					if end > len(c.Sched.Segs) {
						end = len(c.Sched.Segs)
					}
					c.Sched.Segs = append(append([]simrt.Segment{}, c.Sched.Segs[:start]...), c.Sched.Segs[end:]...)
					return true
				})
				if !ok {
					start += chunk
				}
			}
		}
	}
	for pass := 0; pass < 6; pass++ {
		changed := false
		// no final phase
		if !cur.NoFinal {
			changed = try(func(c *RunSpec) bool { c.NoFinal = true; return true }) || changed
		}
		// drop whole programs (keep the task slot so ids stay stable)
		nl := len(taskLists(cur))
		for li := nl - 1; li >= 1; li-- {
			changed = try(func(c *RunSpec) bool {
				l := taskLists(c)[li]
				if len(*l) == 0 {
					return false
				}
				*l = nil
				return true
			}) || changed
		}
		// drop faults
		for fi := len(cur.Faults) - 1; fi >= 0; fi-- {
			changed = try(func(c *RunSpec) bool {
				if fi >= len(c.Faults) {
					return false
				}
				c.Faults = append(c.Faults[:fi], c.Faults[fi+1:]...)
				return true
			}) || changed
		}
		// drop single ops
		for li := nl - 1; li >= 0; li-- {
			for oi := len(*taskLists(cur)[li]) - 1; oi >= 0; oi-- {
				changed = try(func(c *RunSpec) bool {
					l := taskLists(c)[li]
					if oi >= len(*l) {
						return false
					}
					if (*l)[oi].Kind == OpOpen {
						return false
					}
					*l = append((*l)[:oi], (*l)[oi+1:]...)
					return true
				}) || changed
			}
		}
		// simplify transactions
		for li := nl - 1; li >= 0; li-- {
			for oi := range *taskLists(cur)[li] {
				op := (*taskLists(cur)[li])[oi]
				for ti := len(op.Txns) - 1; ti >= 0; ti-- {
					if len(op.Txns) > 1 {
						changed = try(func(c *RunSpec) bool {
							o := &(*taskLists(c)[li])[oi]
							if ti >= len(o.Txns) || len(o.Txns) <= 1 {
								return false
							}
							o.Txns = append(o.Txns[:ti], o.Txns[ti+1:]...)
							return true
						}) || changed
					}
				}
				op = (*taskLists(cur)[li])[oi]
				for ti := range op.Txns {
					for ri := len(op.Txns[ti].Refs) - 1; ri >= 0; ri-- {
						changed = try(func(c *RunSpec) bool {
							t := &(*taskLists(c)[li])[oi].Txns[ti]
							if ri >= len(t.Refs) {
								return false
							}
							t.Refs = append(t.Refs[:ri], t.Refs[ri+1:]...)
							return true
						}) || changed
					}
					for gi := len(op.Txns[ti].Logs) - 1; gi >= 0; gi-- {
						changed = try(func(c *RunSpec) bool {
							t := &(*taskLists(c)[li])[oi].Txns[ti]
							if gi >= len(t.Logs) {
								return false
							}
							t.Logs = append(t.Logs[:gi], t.Logs[gi+1:]...)
							return true
						}) || changed
					}
					if op.Txns[ti].Jump > 0 {
						changed = try(func(c *RunSpec) bool { (*taskLists(c)[li])[oi].Txns[ti].Jump = 0; return true }) || changed
					}
					if op.Txns[ti].Span > 1 {
						changed = try(func(c *RunSpec) bool { (*taskLists(c)[li])[oi].Txns[ti].Span = 0; return true }) || changed
					}
				}
			}
		}
		// schedule: fewer context switches
		if cur.Sched.Mode == "replay" {
			if len(cur.Sched.Segs) > 0 {
				changed = try(func(c *RunSpec) bool { c.Sched.Segs = nil; return true }) || changed
			}
			for si := len(cur.Sched.Segs) - 1; si >= 0 && len(cur.Sched.Segs) <= 200; si-- {
				changed = try(func(c *RunSpec) bool {
					if si >= len(c.Sched.Segs) {
						return false
					}
					c.Sched.Segs = append(c.Sched.Segs[:si], c.Sched.Segs[si+1:]...)
					return true
				}) || changed
			}
			// merge neighbours of the same task
			var m []simrt.Segment
			for _, sg := range cur.Sched.Segs {
				if n := len(m); n > 0 && m[n-1].Task == sg.Task && !m[n-1].Kill && !sg.Kill {
					m[n-1].Steps += sg.Steps
				} else {
					m = append(m, sg)
				}
			}
			cur.Sched.Segs = m
		}
		// configuration towards defaults
		changed = try(func(c *RunSpec) bool {
			if c.Cfg.BlockSize == 0 {
				return false
			}
			c.Cfg.BlockSize = 0
			return true
		}) || changed
		changed = try(func(c *RunSpec) bool {
			if c.Cfg.Restart == 0 {
				return false
			}
			c.Cfg.Restart = 0
			return true
		}) || changed
		for _, f := range []func(c *CfgSpec) *bool{
			func(c *CfgSpec) *bool { return &c.Unaligned },
			func(c *CfgSpec) *bool { return &c.SkipIndexObjects },
			func(c *CfgSpec) *bool { return &c.ExactLog },
			func(c *CfgSpec) *bool { return &c.SkipNameCheck },
		} {
			changed = try(func(c *RunSpec) bool {
				p := f(&c.Cfg)
				if !*p {
					return false
				}
				*p = false
				return true
			}) || changed
		}
		changed = try(func(c *RunSpec) bool {
			if c.Cfg.Hash != "s256" {
				return false
			}
			c.Cfg.Hash = "sha1"
			return true
		}) || changed
		if !changed || execs >= budget {
			break
		}
	}
	return cur, execs
}
