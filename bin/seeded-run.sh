#!/bin/sh
# bin/seeded-run.sh <seed-id> <check> [<check>...] : apply /verif/seeded/<id>/patch.diff to /repo, run the checks, undo.
ID="$1"; shift
P=/verif/seeded/$ID/patch.diff
git -C /repo diff --quiet || { echo "seeded-run: /repo working tree not clean"; exit 2; }
git -C /repo apply "$P" || { echo "seeded-run: patch does not apply"; exit 2; }
trap 'git -C /repo checkout -q -- .' EXIT INT TERM
for c in "$@"; do
  out=$(VERIF_OUT="${VERIF_OUT:-/var/tmp/seeded-run-out}" /verif/bin/check $c --tier "${TIER:-quick}" ${SCALE:+--scale $SCALE} 2>&1); ec=$?
  echo "== $ID vs $c: exit=$ec"
  echo "$out" | grep -E "^(C[0-9]+/|VIOLATION|KNOWN|NONDET|check )" | head -8
done
