// Package ioutil is the simulator's stand-in for io/ioutil.
package ioutil

import (
	"io"
	rioutil "io/ioutil"

	os "verifsim/shim/os"
)

var Discard = rioutil.Discard

func ReadAll(r io.Reader) ([]byte, error)  { return io.ReadAll(r) }
func NopCloser(r io.Reader) io.ReadCloser  { return io.NopCloser(r) }
func ReadFile(name string) ([]byte, error) { return os.ReadFile(name) }
func WriteFile(name string, data []byte, perm os.FileMode) error {
	return os.WriteFile(name, data, perm)
}
func ReadDir(name string) ([]os.FileInfo, error) { return os.ReadDirInfos(name) }
func TempFile(dir, pattern string) (*os.File, error) {
	return os.CreateTemp(dir, pattern)
}
func TempDir(dir, pattern string) (string, error) { return os.MkdirTemp(dir, pattern) }
