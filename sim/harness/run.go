package harness

import (
	"fmt"
	"path/filepath"
	"sort"
	"strings"

	"verifsim/reftable"
	"verifsim/simrt"
)

// RunResult is what one execution produced.
type RunResult struct {
	Spec       *RunSpec
	Violations []Violation
	Probes     map[string]int
	Steps      int
	Events     int
	SimTimeNS  int64
	LogHash    string
	Interleave uint64
	States     int
	Versions   int
	MaxTables  int
	Budget     bool
	Counters   map[string]int
	CallCounts map[string]int
	Calls      []*CallRec
	Crashes    int
	Trace      []string
	Segs       []simrt.Segment
	TaskSteps  []int
	World      *World
	Sub        int      // sub-executions (crash points) folded into this result
	Keys       []uint64 // distinct-case keys contributed (overrides the interleaving hash)
}

// RunOpts controls one execution.
type RunOpts struct {
	KeepLog     bool
	StopOn      string // property whose first violation ends the run ("*": any)
	RealDir     string // pass-through mode: real directory
	DeepReads   bool   // run the C03/C11 read oracles after every op (sequential scenarios)
	DeepRefsFor bool
	Porcupine   bool           // black-box linearizability cross-check of the call history (C04)
	Hook        func(w *World) // called after the world is built
}

const finalHandle = 900
const setupHandle = 901

// Execute runs a RunSpec. It is a pure function of the spec (and the
// library under test).
func Execute(spec *RunSpec, opts RunOpts) *RunResult {
	var be simrt.Backend
	if opts.RealDir != "" {
		be = &simrt.RealFS{Root: opts.RealDir}
	} else {
		be = simrt.NewMemFS()
	}
	sim := simrt.NewSim(spec.Seed, be)
	sim.KeepLog = opts.KeepLog
	sim.Faults = spec.Faults
	simrt.G = sim
	defer func() { simrt.G = nil }()
	w := NewWorld(spec, sim)
	w.StopOn = opts.StopOn
	w.Sequential = spec.Scenario == "S-TURN" || spec.Scenario == "S-GROW"
	w.DeepReads = opts.DeepReads
	w.CrashEnum = spec.Scenario == "S-CRASH-ENUM" || spec.Scenario == "S-CRASH-RAND"
	w.DeepRefsFor = opts.DeepRefsFor
	w.Porcupine = opts.Porcupine
	for _, f := range spec.Faults {
		if f.Kind == simrt.FaultClockJump || f.Kind == simrt.FaultSlow {
			w.TimeFaults = true
		}
	}
	if opts.Hook != nil {
		opts.Hook(w)
	}

	// task ids: 0 setup, 1..n concurrent, then after-tasks, then final.
	setup := sim.NewTask("setup", func(t *simrt.Task) {
		be.MkdirAll(DBDir)
		w.RunOps(t, spec.Setup)
		t.Quiet(func() {
			if hs := w.handle(setupHandle, t.ID); hs.Open {
				closeQuiet(hs.St)
				hs.Open = false
			}
		})
	})
	var conc []*simrt.Task
	for i := range spec.Tasks {
		ts := &spec.Tasks[i]
		conc = append(conc, sim.NewTask(ts.Name, func(t *simrt.Task) { w.RunOps(t, ts.Ops) }))
	}
	var after []*simrt.Task
	for i := range spec.After {
		ts := &spec.After[i]
		after = append(after, sim.NewTask(ts.Name, func(t *simrt.Task) { w.RunOps(t, ts.Ops) }))
	}
	final := sim.NewTask("final", func(t *simrt.Task) { w.finalChecks(t) })

	sim.RunPhase([]*simrt.Task{setup}, simrt.Sequential{})
	w.notePanics([]*simrt.Task{setup})
	sim.Sched = nil
	var strat simrt.Strategy
	switch spec.Sched.Mode {
	case "replay":
		strat = &simrt.Replay{Segs: spec.Sched.Segs}
	case "sequential", "":
		strat = simrt.Sequential{}
	default:
		r := &simrt.Random{Rng: simrt.NewRng(spec.Seed, "schedule"), Mode: spec.Sched.Mode, StickP: spec.Sched.StickP,
			LocalP: spec.Sched.LocalP, Depth: spec.Sched.Depth, EstLen: spec.Sched.EstLen}
		w.strat = r
		strat = r
	}
	if !sim.Stop {
		sim.RunPhase(conc, strat)
		w.notePanics(conc)
	}
	segs := sim.Sched
	w.strat = nil
	for _, t := range after {
		if sim.Stop {
			break
		}
		sim.RunPhase([]*simrt.Task{t}, simrt.Sequential{})
		w.notePanics([]*simrt.Task{t})
	}
	if !sim.Stop && !spec.NoFinal && !sim.Budget {
		sim.RunPhase([]*simrt.Task{final}, simrt.Sequential{})
		w.notePanics([]*simrt.Task{final})
	}
	sim.KillAll()
	if w.Porcupine && !sim.Budget && (w.StopOn == "" || !w.hasViolation(w.StopOn)) {
		w.checkLinearizable()
	}
	// release descriptors of handles that are still open (real backend)
	res := &RunResult{Spec: spec, Violations: w.Violations, Probes: w.Probes, Steps: sim.Steps, Events: sim.EventCount(),
		SimTimeNS: sim.Now, LogHash: fmt.Sprintf("%016x", sim.Hash), Interleave: w.interleave, States: len(w.stateSet),
		Versions: len(w.Versions), MaxTables: w.maxTables, Budget: sim.Budget, Counters: sim.Counters, Calls: w.Calls,
		Crashes: w.Crashes, Segs: segs, World: w, CallCounts: map[string]int{}}
	for _, t := range sim.Tasks {
		res.TaskSteps = append(res.TaskSteps, t.Steps)
	}
	for _, c := range w.Calls {
		res.CallCounts[c.Kind+":"+c.Class]++
	}
	if opts.KeepLog {
		for i := range sim.Log {
			res.Trace = append(res.Trace, sim.Log[i].String())
		}
	}
	return res
}

func (w *World) notePanics(ts []*simrt.Task) {
	for _, t := range ts {
		if t.Panic != nil {
			// a panic outside an op wrapper is a harness bug
			panic(fmt.Sprintf("harness panic in task %s: %v\n%s", t.Name, t.Panic, t.PanicStack))
		}
	}
}

// finalChecks: residue at quiescence, fresh open equals the last version,
// progress once contention has stopped.
func (w *World) finalChecks(t *simrt.Task) {
	crashFree := w.Crashes == 0
	lockLeft := false
	lockExcused := false
	t.Quiet(func() {
		es, err := w.Sim.FS.ReadDir(DBDir)
		if err != nil {
			return
		}
		listed := map[string]bool{"tables.list": true}
		for _, n := range w.Latest().Names {
			listed[n] = true
		}
		var extra []string
		for _, e := range es {
			if w.excused[filepath.Join(DBDir, e.Name)] {
				// its unlink was the injected failure
				if pathClassOf(e.Name) == "listlock" {
					lockLeft, lockExcused = true, true
				}
				listed[e.Name] = true
				continue
			}
			if !listed[e.Name] {
				extra = append(extra, pathClassOf(e.Name))
			}
			if pathClassOf(e.Name) == "listlock" {
				lockLeft = true
			}
		}
		if crashFree {
			// "exactly tables.list and the tables it names": a listed table
			// that is not there is as wrong as a file nobody lists
			present := map[string]bool{}
			for _, e := range es {
				present[e.Name] = true
			}
			for _, n := range w.Latest().Names {
				if !present[n] {
					w.violate("C16", "residue-quiescent", "listed-table-missing", fmt.Sprintf("at quiescence tables.list names %s, which is not in the directory", n))
					break
				}
			}
		}
		if crashFree && len(extra) > 0 && !w.hasOpenAddition() {
			sort.Strings(extra)
			var names []string
			for _, e := range es {
				if !listed[e.Name] {
					names = append(names, e.Name)
				}
			}
			w.violate("C16", "residue-quiescent", strings.Join(uniq(extra), "+"), fmt.Sprintf("at quiescence the directory holds %v besides tables.list and the %d listed tables", names, len(w.Latest().Names)))
		}
	})
	if w.Sim.Stop {
		return
	}
	// fresh open
	op := OpSpec{Kind: OpOpen, H: finalHandle, Auto: false}
	cr := w.runOp(t, &op, false)
	hs := w.handle(finalHandle, t.ID)
	if cr == nil || !hs.Open {
		return
	}
	t.Quiet(func() {
		latest := w.Latest()
		if hs.Version != latest.N && !equalStrings(reftable.SimNames(hs.St), latest.Names) {
			w.violate("C04", "fresh-open", "final", fmt.Sprintf("final NewStack sees version %d, latest is %d", hs.Version, latest.N))
		}
		if w.ModelOK && latest.Model != nil {
			refs, logs, err := ScanTable(hs.St.Merged())
			if err == nil {
				if d := latest.Model.Diff(StateOf(refs, logs)); d != "" {
					w.violate("C04", "final-state", "fresh-vs-model", "final fresh handle differs from the model: "+d)
				}
			}
		}
	})
	if w.Sim.Stop {
		return
	}
	// progress: one more Add through the fresh handle succeeds.
	if (crashFree || !lockLeft) && !lockExcused {
		tx := TxnSpec{ID: 999999, Refs: []RefSpec{{Name: "refs/final/probe", Kind: RefVal}}}
		add := OpSpec{Kind: OpAdd, H: finalHandle, Txns: []TxnSpec{tx}}
		if !w.Spec.Cfg.SkipNameCheck {
			// keep the probe legal whatever the history left behind
			add.Txns[0].Refs[0].Name = "zz-final-probe"
		}
		cr := w.runOp(t, &add, false)
		if cr != nil && cr.Class != "ok" {
			prop := "C04"
			if lockLeft {
				prop = "C16"
			}
			w.violate(prop, "no-progress", cr.Class+"/"+errSite(cr.Err), fmt.Sprintf("after quiescence a fresh handle cannot add: %v (lock file left: %v)", cr.Err, lockLeft))
		}
	}
	cl := OpSpec{Kind: OpClose, H: finalHandle}
	w.runOp(t, &cl, false)
}

func (w *World) hasOpenAddition() bool { return false }

// ListNames is a helper for tests and the minimiser.
func (w *World) ListNames() []string { return w.Latest().Names }

func baseName(p string) string { return filepath.Base(p) }

// Main is filled in by checks.go.
