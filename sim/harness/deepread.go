package harness

import (
	"bytes"
	"fmt"
	"math"
	"runtime/debug"

	"verifsim/reftable"
	"verifsim/simrt"
)

// Deep read oracles (sequential scenarios, observer mode):
//   C03 (a) per-table scans -> overlay == the version's view
//       (c) raw NewMerged over contiguous sub-ranges == raw overlay
//       (d) seeks in both views return exactly the suffix
//   C11 RefsFor on stack / sub-range / table == filter of the full scan

func drainRefs(it *reftable.Iterator) ([]Ref, error) {
	var out []Ref
	for n := 0; ; n++ {
		var rec reftable.RefRecord
		ok, err := it.NextRef(&rec)
		if err != nil {
			return nil, err
		}
		if !ok {
			return out, nil
		}
		out = append(out, refFromRec(&rec))
		if n > 1<<20 {
			return nil, fmt.Errorf("iteration does not terminate")
		}
	}
}

func drainLogs(it *reftable.Iterator) ([]Log, error) {
	var out []Log
	for n := 0; ; n++ {
		var rec reftable.LogRecord
		ok, err := it.NextLog(&rec)
		if err != nil {
			return nil, err
		}
		if !ok {
			return out, nil
		}
		out = append(out, logFromRec(&rec))
		if n > 1<<20 {
			return nil, fmt.Errorf("iteration does not terminate")
		}
	}
}

func guard(f func() error) (err error) {
	defer func() {
		if r := recover(); r != nil {
			err = fmt.Errorf("panic: %v at %s", r, panicSite(string(debug.Stack())))
		}
	}()
	return f()
}

func seekKeys(names []string) []string {
	seen := map[string]bool{}
	var out []string
	add := func(k string) {
		if !seen[k] {
			seen[k] = true
			out = append(out, k)
		}
	}
	add("")
	add("~~~~")
	for _, n := range names {
		add(n)
		add(n + "\x00")
		add(n + "/")
		if len(n) > 1 {
			add(n[:len(n)-1])
			add(n[:len(n)/2])
			b := []byte(n)
			b[len(b)-1]--
			add(string(b) + "\xff")
		}
	}
	return out
}

func refSuffix(all []Ref, k string) []Ref {
	for i, r := range all {
		if r.Name >= k {
			return all[i:]
		}
	}
	return nil
}

func logSuffix(all []Log, name string, u uint64) []Log {
	for i, l := range all {
		if l.Name > name || (l.Name == name && l.Idx <= u) {
			return all[i:]
		}
	}
	return nil
}

// checkSeeks compares seeks on a table against the suffix rule.
func (w *World) checkSeeks(prop, what string, tab reftable.Table, refs []Ref, logs []Log, rng *simrt.Rng, budget int) {
	var names []string
	seen := map[string]bool{}
	for _, r := range refs {
		if !seen[r.Name] {
			seen[r.Name] = true
			names = append(names, r.Name)
		}
	}
	for _, l := range logs {
		if !seen[l.Name] {
			seen[l.Name] = true
			names = append(names, l.Name)
		}
	}
	keys := seekKeys(names)
	for n := 0; n < budget && len(keys) > 0; n++ {
		k := keys[rng.Intn(len(keys))]
		var got []Ref
		err := guard(func() error {
			it, err := tab.SeekRef(k)
			if err != nil {
				return err
			}
			got, err = drainRefs(it)
			return err
		})
		if err != nil {
			w.violate(prop, "seek-failed", what+"/ref", fmt.Sprintf("SeekRef(%q) on %s: %v", k, what, err))
			return
		}
		if d := diffLists(refStrings(refSuffix(refs, k)), refStrings(got)); d != "" {
			w.violate(prop, "seek-mismatch", what+"/ref", fmt.Sprintf("SeekRef(%q) on %s: %s", k, what, d))
			return
		}
		w.probe("seek-ref")
	}
	// log seeks
	type lk struct {
		n string
		u uint64
	}
	var lks []lk
	lks = append(lks, lk{"", math.MaxUint64}, lk{"~~~~", 5})
	for _, l := range logs {
		lks = append(lks, lk{l.Name, l.Idx}, lk{l.Name, l.Idx + 1}, lk{l.Name, math.MaxUint64}, lk{l.Name, 0})
		if l.Idx > 0 {
			lks = append(lks, lk{l.Name, l.Idx - 1})
		}
	}
	// (ref names never contain NUL; a NUL inside the seek name would
	// address the key space between a name and its update indices, where
	// the statement's name-based suffix rule is not defined)
	for _, nm := range names {
		lks = append(lks, lk{nm, math.MaxUint64}, lk{nm + "/", 3}, lk{nm + "!", 2})
		if len(nm) > 1 {
			lks = append(lks, lk{nm[:len(nm)-1], math.MaxUint64})
		}
	}
	for n := 0; n < budget && len(lks) > 0; n++ {
		k := lks[rng.Intn(len(lks))]
		var got []Log
		err := guard(func() error {
			it, err := tab.SeekLog(k.n, k.u)
			if err != nil {
				return err
			}
			got, err = drainLogs(it)
			return err
		})
		if err != nil {
			w.violate(prop, "seek-failed", what+"/log", fmt.Sprintf("SeekLog(%q,%d) on %s: %v", k.n, k.u, what, err))
			return
		}
		if d := diffLists(logStrings(logSuffix(logs, k.n, k.u)), logStrings(got)); d != "" {
			w.violate(prop, "seek-mismatch", what+"/log", fmt.Sprintf("SeekLog(%q,%d) on %s: %s", k.n, k.u, what, d))
			return
		}
		w.probe("seek-log")
	}
}

func filterOid(refs []Ref, oid []byte) []Ref {
	var out []Ref
	for _, r := range refs {
		if bytes.Equal(r.Value, oid) || bytes.Equal(r.Peeled, oid) {
			out = append(out, r)
		}
	}
	return out
}

func (w *World) oidCandidates(refs []Ref, rng *simrt.Rng) [][]byte {
	hs := w.Spec.Cfg.HashSize()
	var out [][]byte
	for tag := 1; tag <= 6; tag++ {
		out = append(out, SharedOid(tag, hs))
	}
	for i := 0; i < 3 && len(refs) > 0; i++ {
		r := refs[rng.Intn(len(refs))]
		if r.Value != nil {
			out = append(out, r.Value)
		}
		if r.Peeled != nil {
			out = append(out, r.Peeled)
		}
	}
	out = append(out, hashBytes(12345, hs), make([]byte, hs))
	return out
}

func (w *World) checkRefsFor(what string, tab reftable.Table, refs []Ref, rng *simrt.Rng) {
	for _, oid := range w.oidCandidates(refs, rng) {
		var got []Ref
		err := guard(func() error {
			it, err := tab.RefsFor(oid)
			if err != nil {
				return err
			}
			got, err = drainRefs(it)
			return err
		})
		if err != nil {
			w.violate("C11", "refsfor-failed", what, fmt.Sprintf("RefsFor(%x) on %s: %v", oid[:4], what, err))
			return
		}
		want := filterOid(refs, oid)
		if d := diffLists(refStrings(want), refStrings(got)); d != "" {
			w.violate("C11", "refsfor-mismatch", what, fmt.Sprintf("RefsFor(%x) on %s: %s", oid[:4], what, d))
			return
		}
		if len(want) > 0 {
			w.probe("refsfor-hit-" + what)
		}
		w.probe("refsfor-" + what)
	}
}

// deepReadCheck runs the C03/C11 read oracles on a handle.
func (w *World) deepReadCheck(hs *HandleState, cr *CallRec) {
	if !hs.Open || hs.St.Merged() == nil {
		return
	}
	rng := simrt.NewRng(w.Spec.Seed, fmt.Sprintf("deep-%d", len(w.Calls)))
	readers := reftable.SimReaders(hs.St)
	// (a) per-table scans through the handle's own descriptors
	tabs := make([]*TableContent, len(readers))
	for i, rd := range readers {
		refs, logs, err := ScanTable(rd)
		if err != nil {
			w.violate(w.concProp("C10"), "read-failed", "table-scan", fmt.Sprintf("scanning table %s of handle %d: %v", rd.Name(), hs.Idx, err))
			return
		}
		tabs[i] = &TableContent{Name: rd.Name(), Refs: refs, Logs: logs}
		if tc := w.loadTable(rd.Name()); tc.Info != nil {
			if tc.Info.ObjOff > 0 {
				w.probe("table-with-obj-index")
			}
			if tc.Info.ObjIndexOff > 0 {
				w.probe("table-with-multiblock-obj-index")
			}
			if tc.Info.RefIndexOff > 0 {
				w.probe("table-with-ref-index")
			}
			if tc.Info.LogIndexOff > 0 {
				w.probe("table-with-log-index")
			}
		}
	}
	liveRefs, liveLogs := Overlay(tabs, false)
	v := w.versionOfNames(reftable.SimNames(hs.St), hs.Version)
	if v != nil && v.View != nil {
		if d := v.View.Diff(StateOf(liveRefs, liveLogs)); d != "" {
			// the inputs of the check are themselves inconsistent: the
			// tables read through the handle differ from the tables on
			// disk; that is a handle-view problem, not a merge problem.
			w.violate(w.concProp("C10"), "wrong-data", "tables-via-handle", d)
			return
		}
	}
	// (b) is done by checkHandleView. (d) seeks in the stack view:
	w.checkSeeks("C03", "stack-view", hs.St.Merged(), liveRefs, liveLogs, rng, 6)
	// (c) raw merged view over contiguous sub-ranges, with seeks
	n := len(readers)
	for k := 0; k < 4 && n > 0; k++ {
		i := rng.Intn(n)
		j := i + rng.Intn(n-i)
		if k == 0 {
			i, j = 0, n-1
		}
		sub := reftable.SimTables(hs.St)[i : j+1]
		m, err := reftable.NewMerged(sub, w.Cfg.HashID)
		if err != nil {
			w.violate("C03", "merged-failed", "newmerged", fmt.Sprintf("NewMerged over tables [%d,%d]: %v", i, j, err))
			return
		}
		rawRefs, rawLogs := Overlay(tabs[i:j+1], true)
		gr, gl, err := ScanTable(m)
		if err != nil {
			w.violate("C03", "merged-failed", "scan", fmt.Sprintf("scan of raw merged view [%d,%d]: %v", i, j, err))
			return
		}
		if d := diffLists(refStrings(rawRefs), refStrings(gr)); d != "" {
			w.violate("C03", "raw-merged-mismatch", "refs", fmt.Sprintf("raw merged view over tables [%d,%d] of %d: %s", i, j, n, d))
			return
		}
		if d := diffLists(logStrings(rawLogs), logStrings(gl)); d != "" {
			w.violate("C03", "raw-merged-mismatch", "logs", fmt.Sprintf("raw merged view over tables [%d,%d] of %d: %s", i, j, n, d))
			return
		}
		w.probe("raw-merged-subrange")
		if j > i {
			w.probe("raw-merged-multi")
		}
		w.checkSeeks("C03", "raw-merged", m, rawRefs, rawLogs, rng, 3)
		if w.DeepRefsFor {
			w.checkRefsFor("raw-merged", m, rawRefs, rng)
		}
	}
	if w.DeepRefsFor {
		w.checkRefsFor("stack-view", hs.St.Merged(), liveRefs, rng)
		for i, rd := range readers {
			if i >= 3 && rng.Bool(0.5) {
				continue
			}
			w.checkRefsFor("table", rd, tabs[i].Refs, rng)
		}
	}
}
