// Package rand is the simulator's stand-in for math/rand.
//
// What a process gets from math/rand depends on how the generator was made,
// and the shim keeps those cases apart because table names depend on them:
//
//   - a generator created at package initialisation (the library's
//     randomRandom, seeded with the start time of the process): one stream
//     per simulated process, from the simulator's hash-addressed name stream
//     (run seed, task, counter) - processes start at different times;
//   - a generator created by a running process with an explicit seed, or
//     re-seeded with Seed: a function of that seed and a counter alone, as
//     in the real package (equal seeds give equal sequences);
//   - the top-level functions (rand.Uint32(), ...): per process and random
//     where the runtime seeds them at start (Go >= 1.20), the SAME sequence
//     in every process where it does not (Go < 1.20, GODEBUG=randautoseed=0;
//     the library's go.mod says go 1.12) - chosen per run from the run seed.
package rand

import "verifsim/simrt"

type Source interface {
	Int63() int64
	Seed(seed int64)
}

type simSource struct {
	seeded bool
	seed   uint64
	ctr    uint64
}

func (s *simSource) value() uint64 {
	if s.seeded {
		s.ctr++
		return simrt.Hash4(s.seed, "rand-src", 0, s.ctr)
	}
	return simrt.NameValue()
}
func (s *simSource) Int63() int64 { return int64(s.value() >> 1) }
func (s *simSource) Seed(seed int64) {
	s.seeded, s.seed, s.ctr = true, uint64(seed), 0
}

func NewSource(seed int64) Source {
	if simrt.InTask() {
		return &simSource{seeded: true, seed: uint64(seed)}
	}
	return &simSource{}
}

type Rand struct {
	src    Source
	global bool
}

func New(src Source) *Rand { return &Rand{src: src} }

func (r *Rand) v() uint64 {
	if r.global {
		return simrt.GlobalRandValue()
	}
	if s, ok := r.src.(*simSource); ok {
		return s.value()
	}
	if r.src != nil {
		return uint64(r.src.Int63())<<1 ^ uint64(r.src.Int63())>>31
	}
	return simrt.NameValue()
}

func (r *Rand) Uint32() uint32   { return uint32(r.v() >> 32) }
func (r *Rand) Uint64() uint64   { return r.v() }
func (r *Rand) Int63() int64     { return int64(r.v() >> 1) }
func (r *Rand) Int31() int32     { return int32(r.v() >> 33) }
func (r *Rand) Int() int         { return int(uint(r.v()) >> 1) }
func (r *Rand) Float64() float64 { return float64(r.v()>>11) / float64(1<<53) }
func (r *Rand) Seed(seed int64) {
	if r.global {
		simrt.GlobalRandSeed(seed)
		return
	}
	if r.src != nil {
		r.src.Seed(seed)
	}
}
func (r *Rand) Intn(n int) int {
	if n <= 0 {
		panic("invalid argument to Intn")
	}
	return int(r.v() % uint64(n))
}
func (r *Rand) Int63n(n int64) int64 {
	if n <= 0 {
		panic("invalid argument to Int63n")
	}
	return int64(r.v() % uint64(n))
}
func (r *Rand) Int31n(n int32) int32 { return int32(r.Int63n(int64(n))) }
func (r *Rand) Perm(n int) []int {
	p := make([]int, n)
	for i := range p {
		p[i] = i
	}
	for i := n - 1; i > 0; i-- {
		j := r.Intn(i + 1)
		p[i], p[j] = p[j], p[i]
	}
	return p
}
func (r *Rand) Shuffle(n int, swap func(i, j int)) {
	for i := n - 1; i > 0; i-- {
		swap(i, r.Intn(i+1))
	}
}
func (r *Rand) Read(p []byte) (int, error) {
	for i := range p {
		p[i] = byte(r.v() >> 24)
	}
	return len(p), nil
}

var global = &Rand{global: true}

func Seed(seed int64)                    { global.Seed(seed) }
func Uint32() uint32                     { return global.Uint32() }
func Uint64() uint64                     { return global.Uint64() }
func Int63() int64                       { return global.Int63() }
func Int31() int32                       { return global.Int31() }
func Int() int                           { return global.Int() }
func Intn(n int) int                     { return global.Intn(n) }
func Int63n(n int64) int64               { return global.Int63n(n) }
func Int31n(n int32) int32               { return global.Int31n(n) }
func Float64() float64                   { return global.Float64() }
func Perm(n int) []int                   { return global.Perm(n) }
func Shuffle(n int, swap func(i, j int)) { global.Shuffle(n, swap) }
func Read(p []byte) (int, error)         { return global.Read(p) }
