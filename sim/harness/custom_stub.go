package harness

// placeholders until the dedicated scenarios are written
func ExecuteShare(spec *RunSpec, opts RunOpts) *RunResult   { panic("S-SHARE not built yet") }
