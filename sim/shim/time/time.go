// Package time is the simulator's stand-in for package time: Now reads the
// simulated clock; nothing ever sleeps for real.
package time

import (
	rtime "time"

	"verifsim/simrt"
)

type (
	Time     = rtime.Time
	Duration = rtime.Duration
	Month    = rtime.Month
	Weekday  = rtime.Weekday
	Location = rtime.Location
)

const (
	Nanosecond  = rtime.Nanosecond
	Microsecond = rtime.Microsecond
	Millisecond = rtime.Millisecond
	Second      = rtime.Second
	Minute      = rtime.Minute
	Hour        = rtime.Hour

	RFC3339     = rtime.RFC3339
	RFC3339Nano = rtime.RFC3339Nano

	January = rtime.January
)

var (
	UTC   = rtime.UTC
	Local = rtime.UTC
)

// epoch keeps simulated times away from the zero Time.
const epoch = simrt.EpochNS

func Now() Time { return rtime.Unix(0, epoch+simrt.NowNS()).UTC() }

func Since(t Time) Duration { return Now().Sub(t) }
func Until(t Time) Duration { return t.Sub(Now()) }

// Sleep advances the simulated clock; it is a yield point.
func Sleep(d Duration) { simrt.SleepNS(int64(d)) }

func Unix(sec, nsec int64) Time { return rtime.Unix(sec, nsec) }
func Date(y int, m Month, d, h, mi, s, ns int, loc *Location) Time {
	return rtime.Date(y, m, d, h, mi, s, ns, loc)
}
func ParseDuration(s string) (Duration, error) { return rtime.ParseDuration(s) }
func Parse(layout, v string) (Time, error)     { return rtime.Parse(layout, v) }

// After and Tick would need timers; the library has none. A modified tree
// that starts to use them fails to compile, which the checks report as
// exit 2 (infrastructure), never as a verdict.
